package api

import (
	"testing"
	"time"

	"github.com/alibaba/sentinel-golang/core/base"
	"github.com/alibaba/sentinel-golang/core/circuitbreaker"
	"github.com/alibaba/sentinel-golang/core/hotspot"
	"github.com/alibaba/sentinel-golang/util"
)

// auditAlignedMockClock installs a mock clock that stands at the start of a 10 s statistic bucket, so
// that the second of traffic the test generates cannot straddle a bucket boundary.
func auditAlignedMockClock(t *testing.T) *util.MockClock {
	clock := util.NewMockClock()
	util.SetClock(clock)
	t.Cleanup(func() { util.SetClock(util.NewRealClock()) })
	if rem := clock.CurrentTimeMillis() % 10000; rem != 0 {
		clock.Sleep(time.Duration(10000-rem) * time.Millisecond)
	}
	return clock
}

// auditCall runs one request of rtMs milliseconds through the global slot chain.
func auditCall(clock *util.MockClock, res string, rtMs int) *base.BlockError {
	e, b := Entry(res)
	if b != nil {
		return b
	}
	clock.Sleep(time.Duration(rtMs) * time.Millisecond)
	e.Exit()
	return nil
}

// Finding 1.
//
// A slow-request-ratio rule is replaced by one that differs only in MaxAllowedRtMs (10 ms -> 1000 ms).
// All traffic, before and after the reload, takes 50 ms. Under the rule in force after the reload no
// request is slow, so its breaker must stay closed - as it does for a resource that had the very same
// rule from the start and saw the very same traffic. Instead the breaker opens: the new breaker takes
// over the slow-request COUNT of the replaced breaker, i.e. the verdicts "slower than 10 ms" that the
// replaced rule passed on the requests it saw.
func TestAuditSlowRequestVerdictsOfReplacedRuleOpenTheBreaker(t *testing.T) {
	clock := auditAlignedMockClock(t)
	defer circuitbreaker.ClearRules()

	rule := func(res string, maxAllowedRtMs uint64) *circuitbreaker.Rule {
		return &circuitbreaker.Rule{
			Resource:         res,
			Strategy:         circuitbreaker.SlowRequestRatio,
			RetryTimeoutMs:   60000,
			MinRequestAmount: 20,
			StatIntervalMs:   10000,
			MaxAllowedRtMs:   maxAllowedRtMs,
			Threshold:        0.5,
		}
	}

	if _, err := circuitbreaker.LoadRules([]*circuitbreaker.Rule{rule("audit-cb-reloaded", 10), rule("audit-cb-control", 1000)}); err != nil {
		t.Fatal(err)
	}
	for i := 0; i < 10; i++ {
		for _, res := range []string{"audit-cb-reloaded", "audit-cb-control"} {
			if b := auditCall(clock, res, 50); b != nil {
				t.Fatalf("unexpected block in the first phase (%s, request %d): %v", res, i, b)
			}
		}
	}

	// the reload: same list, only MaxAllowedRtMs of the first resource's rule is now 1000 ms
	changed, err := circuitbreaker.LoadRules([]*circuitbreaker.Rule{rule("audit-cb-reloaded", 1000), rule("audit-cb-control", 1000)})
	if err != nil || !changed {
		t.Fatalf("reload: changed=%v err=%v", changed, err)
	}
	if got := circuitbreaker.GetRulesOfResource("audit-cb-reloaded"); len(got) != 1 || got[0].MaxAllowedRtMs != 1000 {
		t.Fatalf("getter does not report the reloaded rule: %+v", got)
	}

	for i := 0; i < 10; i++ {
		for _, res := range []string{"audit-cb-reloaded", "audit-cb-control"} {
			if b := auditCall(clock, res, 50); b != nil {
				t.Fatalf("unexpected block in the second phase (%s, request %d): %v", res, i, b)
			}
		}
	}

	// 20 requests of 50 ms each per resource inside one statistic window; the rule in force for both
	// resources says: open when at least half of at least 20 requests took longer than 1000 ms.
	bControl := auditCall(clock, "audit-cb-control", 50)
	bReloaded := auditCall(clock, "audit-cb-reloaded", 50)
	if bControl != nil {
		t.Fatalf("the control resource is blocked, the test setup is wrong: %v", bControl)
	}
	if bReloaded != nil {
		t.Fatalf("after LoadRules replaced {MaxAllowedRtMs: 10} by {MaxAllowedRtMs: 1000} (reported by the getter), 10 more "+
			"requests of 50 ms opened the breaker: %v. No request was slower than the 1000 ms of the only rule in force "+
			"(a resource with that rule from the start and the same traffic stays closed): the slow-request verdicts of the "+
			"REPLACED rule (rt > 10 ms) were taken over with its statistic and decided. The property demands that after a "+
			"load the rules that govern traffic are exactly the valid rules of the most recent load and that previously "+
			"loaded rules are gone", bReloaded)
	}
}

// Finding 2.
//
// A hot-parameter rule is loaded again with one field changed that its control behaviour does not read
// (BurstCount of a Throttling rule; likewise MaxQueueingTimeMs of a Reject rule). LoadRules reports
// "changed", but GetRules / GetRulesOfResource go on reporting the field of the REPLACED rule: the old
// controller is kept (Rule.Equals skips the field) together with the old rule object, and the getters
// copy that object. (The repair for the renamed rule patched the ID only.)
func TestAuditHotspotGettersReportFieldOfReplacedRule(t *testing.T) {
	defer hotspot.ClearRules()
	rule := func(burst int64) *hotspot.Rule {
		return &hotspot.Rule{
			Resource:          "audit-hs",
			MetricType:        hotspot.QPS,
			ControlBehavior:   hotspot.Throttling,
			ParamIndex:        0,
			Threshold:         10,
			MaxQueueingTimeMs: 0,
			BurstCount:        burst,
			DurationInSec:     1,
		}
	}
	if _, err := hotspot.LoadRules([]*hotspot.Rule{rule(1)}); err != nil {
		t.Fatal(err)
	}
	if err := hotspot.IsValidRule(rule(7)); err != nil {
		t.Fatalf("the second rule is not valid, the test setup is wrong: %v", err)
	}
	changed, err := hotspot.LoadRules([]*hotspot.Rule{rule(7)})
	if err != nil {
		t.Fatal(err)
	}
	if !changed {
		t.Fatalf("LoadRules of a list that differs from the previous one reported 'unchanged'")
	}
	want := *rule(7)
	for name, got := range map[string][]hotspot.Rule{
		"GetRulesOfResource": hotspot.GetRulesOfResource("audit-hs"),
		"GetRules":           hotspot.GetRules(),
	} {
		if len(got) != 1 {
			t.Fatalf("%s: %d rules, want 1: %+v", name, len(got), got)
		}
		if got[0].BurstCount != want.BurstCount {
			t.Errorf("%s reports %+v after LoadRules([%+v]) returned changed=true: BurstCount %d is the value of the "+
				"REPLACED rule. The property demands that the rules returned by the getters are exactly the valid rules of "+
				"the most recent load and that previously loaded rules are gone",
				name, got[0], want, got[0].BurstCount)
		}
	}
}
