package flow_test

// Audit of the property "Adaptive thresholds stay inside their configured envelope" (warm-up rules and
// memory-adaptive rules). Every test drives the library through the public API (api.Entry / Exit,
// flow.LoadRules) under a virtual clock and fails on the unmodified code.

import (
	"fmt"
	"math"
	"sync"
	"testing"
	"time"

	sentinel "github.com/alibaba/sentinel-golang/api"
	"github.com/alibaba/sentinel-golang/core/base"
	"github.com/alibaba/sentinel-golang/core/config"
	"github.com/alibaba/sentinel-golang/core/flow"
	"github.com/alibaba/sentinel-golang/logging"
	"github.com/alibaba/sentinel-golang/util"
)

// auditClock is a virtual clock: time moves only when the test says so.
type auditClock struct {
	mu sync.Mutex
	ms int64
}

func (c *auditClock) Now() time.Time {
	c.mu.Lock()
	defer c.mu.Unlock()
	return time.UnixMilli(c.ms)
}
func (c *auditClock) Sleep(d time.Duration) {
	c.mu.Lock()
	c.ms += int64(d / time.Millisecond)
	c.mu.Unlock()
}
func (c *auditClock) CurrentTimeMillis() uint64 {
	c.mu.Lock()
	defer c.mu.Unlock()
	return uint64(c.ms)
}
func (c *auditClock) CurrentTimeNano() uint64 {
	c.mu.Lock()
	defer c.mu.Unlock()
	return uint64(c.ms) * 1000000
}
func (c *auditClock) set(ms int64) {
	c.mu.Lock()
	c.ms = ms
	c.mu.Unlock()
}

var auditInitOnce sync.Once

// auditSetup initialises sentinel once (default configuration: resource statistic of 20 buckets x 500 ms,
// default metric of 1 s), installs a virtual clock and returns it.
func auditSetup(t *testing.T) *auditClock {
	auditInitOnce.Do(func() {
		conf := config.NewDefaultConfig()
		conf.Sentinel.Log.Logger = logging.NewConsoleLogger()
		conf.Sentinel.Log.Metric.FlushIntervalSec = 0
		conf.Sentinel.Stat.System.CollectIntervalMs = 0
		conf.Sentinel.Stat.System.CollectMemoryIntervalMs = 0
		conf.Sentinel.Stat.System.CollectCpuIntervalMs = 0
		conf.Sentinel.Stat.System.CollectLoadIntervalMs = 0
		if err := sentinel.InitWithConfig(conf); err != nil {
			panic(err)
		}
		logging.ResetGlobalLoggerLevel(logging.ErrorLevel)
	})
	clk := &auditClock{}
	util.SetClock(clk)
	t.Cleanup(func() {
		_ = flow.ClearRules()
		util.SetClock(util.NewRealClock())
	})
	return clk
}

func auditLoad(t *testing.T, r *flow.Rule) {
	if err := flow.IsValidRule(r); err != nil {
		t.Fatalf("the rule of the scenario is not valid: %v", err)
	}
	if _, err := flow.LoadRules([]*flow.Rule{r}); err != nil {
		t.Fatalf("LoadRules: %v", err)
	}
	if got := flow.GetRulesOfResource(r.Resource); len(got) != 1 {
		t.Fatalf("rule not in force after LoadRules: %v", got)
	}
}

// Finding 1.
//
// The warm-up calculator drains / refills its bucket once per statistic interval with "the tokens that
// passed in the previous interval". It takes that number from ReadStat.GetPreviousQPS, which is the sliding
// window as it stood ONE BUCKET (500 ms with the default statistic) before now - that is the previous
// calendar second only when the first request of the new second arrives in its first half. When the first
// request of a second arrives in the second half, the passes of the first half of the previous second are not
// seen, the second looks idle ("low traffic") and the bucket is refilled by the full threshold.
//
// Any demand whose requests (or bursts) are 500 ms or more apart hits this regularly: the rule never leaves
// the cold rate although the demand is sustained, without a single idle second, far longer than the warm-up
// period.
func TestAuditWarmUpNeverWarmsWhenSecondsStartInTheirSecondHalf(t *testing.T) {
	clk := auditSetup(t)

	t.Run("bursts of the full threshold every 700 ms", func(t *testing.T) {
		const (
			res      = "audit-c11-f1-burst"
			base0    = int64(2_000_000_000_000)
			T        = 100
			gapMs    = 700
			horizon  = int64(200_000) // 200 s = 40 warm-up periods
			lateFrom = int64(100_000)
		)
		clk.set(base0)
		auditLoad(t, &flow.Rule{Resource: res, TokenCalculateStrategy: flow.WarmUp, ControlBehavior: flow.Reject,
			Threshold: T, WarmUpPeriodSec: 5, WarmUpColdFactor: 3})
		late := 0
		for ts := int64(0); ts < horizon; ts += gapMs {
			clk.set(base0 + ts)
			for i := 0; i < T; i++ { // demand: 100 requests every 700 ms = 143/s, above the threshold
				if e, b := sentinel.Entry(res); b == nil {
					if ts >= lateFrom {
						late++
					}
					e.Exit()
				}
			}
		}
		rate := float64(late) / (float64(horizon-lateFrom) / 1000)
		t.Logf("admitted rate between 100 s and 200 s: %.1f/s", rate)
		// (With a 1 s sliding window 6 of 10 such bursts can pass at the full threshold: about 86/s.)
		if rate < 60 {
			t.Errorf("warm-up rule {Threshold 100/s, WarmUpPeriodSec 5, cold factor 3}: demand of 100 requests every 700 ms "+
				"(143/s, no second without demand) sustained for 200 s; between 100 s and 200 s the rule admitted %.1f/s - "+
				"that is not even the cold rate 33.3/s. The property demands that the rule reaches the full threshold after "+
				"sustained demand for the warm-up period (5 s). Cause: whenever the first burst of a second arrives at an "+
				"offset >= 500 ms, GetPreviousQPS reports the window [second-500ms, second+500ms) instead of the previous second, "+
				"sees 0 passes and the bucket is refilled by 100 tokens.", rate)
		}
	})

	t.Run("one request every 630 ms against threshold 3", func(t *testing.T) {
		const (
			res      = "audit-c11-f1-single"
			base0    = int64(2_000_100_000_000)
			gapMs    = 630
			horizon  = int64(600_000) // 10 minutes = 120 warm-up periods
			lateFrom = int64(300_000)
		)
		clk.set(base0)
		// cold factor left at its default (3): cold rate 1/s
		auditLoad(t, &flow.Rule{Resource: res, TokenCalculateStrategy: flow.WarmUp, ControlBehavior: flow.Reject,
			Threshold: 3, WarmUpPeriodSec: 5})
		late, lateTotal := 0, 0
		for ts := int64(0); ts < horizon; ts += gapMs {
			clk.set(base0 + ts)
			e, b := sentinel.Entry(res)
			if ts >= lateFrom {
				lateTotal++
			}
			if b == nil {
				if ts >= lateFrom {
					late++
				}
				e.Exit()
			}
		}
		t.Logf("admitted between 5 min and 10 min: %d of %d", late, lateTotal)
		if late*100 < lateTotal*85 {
			t.Errorf("warm-up rule {Threshold 3/s, WarmUpPeriodSec 5, default cold factor 3}: a steady single-token demand of one "+
				"request every 630 ms (1.59/s: above the cold rate 1/s, about half the threshold) for 10 minutes; in the last 5 minutes "+
				"only %d of %d requests were admitted (%.2f/s). The property demands that the rule reaches the full threshold (3/s, "+
				"which admits this whole demand) after sustained demand for the warm-up period. Cause: the pass of the previous second is "+
				"missed whenever the first request of a second comes in its second half, and the bucket is refilled by 3 tokens.",
				late, lateTotal, float64(late)/(float64(horizon-lateFrom)/1000))
		}
	})
}

// Finding 2.
//
// A warm-up rule whose StatIntervalInMs equals the length of the resource's global statistic (10 s with the
// default configuration) reads its passes from that global array. The array is exactly one interval long, so
// the oldest bucket of the previous interval shares its slot with the current bucket: the first WRITE in the
// new interval erases it. The calculator reads the previous interval at the first CHECK of the new interval.
// Usually that check comes first - but the Exit of a call that is still running writes (complete count, rt) too.
// If an Exit falls between the interval boundary and the first Entry after it, the passes of the first 500 ms of
// the previous interval are gone, the count drops under the low-traffic bound and the bucket is refilled.
// Whether the rule ever warms up then depends on how long the callers' work takes.
func TestAuditWarmUpTenSecondIntervalDependsOnExitTiming(t *testing.T) {
	clk := auditSetup(t)

	const (
		T       = 30 // per 10 s; cold rate 10 per 10 s
		gapMs   = 50 // one request every 50 ms = 200 per 10 s
		startMs = 9720
		horizon = int64(400_000) // 400 s = 13 warm-up periods
	)
	run := func(res string, base0 int64, rtMs int64) []int {
		clk.set(base0) // base0 is a multiple of 10 s
		auditLoad(t, &flow.Rule{Resource: res, TokenCalculateStrategy: flow.WarmUp, ControlBehavior: flow.Reject,
			Threshold: T, WarmUpPeriodSec: 30, WarmUpColdFactor: 3, StatIntervalInMs: 10000})
		type pendingExit struct {
			at int64
			e  *base.SentinelEntry
		}
		var pending []pendingExit
		perInterval := make([]int, horizon/10000)
		for ts := int64(startMs); ts < horizon; ts += gapMs {
			for len(pending) > 0 && pending[0].at < ts {
				clk.set(base0 + pending[0].at)
				pending[0].e.Exit()
				pending = pending[1:]
			}
			clk.set(base0 + ts)
			if e, b := sentinel.Entry(res); b == nil {
				perInterval[ts/10000]++
				if rtMs == 0 {
					e.Exit()
				} else {
					pending = append(pending, pendingExit{ts + rtMs, e})
				}
			}
		}
		return perInterval
	}

	immediate := run("audit-c11-f2-rt0", 2_001_000_000_000, 0)
	slow := run("audit-c11-f2-rt290", 2_002_000_000_000, 290)
	t.Logf("admitted per 10 s interval, Exit at once:      %v", immediate)
	t.Logf("admitted per 10 s interval, Exit after 290 ms: %v", slow)

	last := len(slow) - 1
	if immediate[last] < T {
		t.Fatalf("control run (same demand, Exit at once) did not reach the threshold: %v", immediate)
	}
	if slow[last] < T*8/10 {
		t.Errorf("warm-up rule {Threshold 30 per StatIntervalInMs 10000, WarmUpPeriodSec 30, cold factor 3}, one request every 50 ms "+
			"(200 per interval) for 400 s: when every admitted call takes 290 ms until Exit, the rule admits %d per interval in the "+
			"40th interval and never more than %d - the cold rate; with the very same demand and Exit at once it admits %d. The property "+
			"demands that the rule reaches the full threshold after sustained demand for the warm-up period (30 s), whatever the calls "+
			"do after they were admitted. Cause: the rule reuses the global statistic, whose array is exactly one interval long; an Exit "+
			"recorded in the new interval before the first Entry resets the slot that still held the oldest bucket of the previous "+
			"interval, the previous count comes out below the low-traffic bound and the bucket is refilled.",
			slow[last], auditMax(slow[1:]), immediate[last])
	}
}

func auditMax(xs []int) int {
	m := 0
	for _, x := range xs {
		if x > m {
			m = x
		}
	}
	return m
}

// Finding 3.
//
// Two integer wrap-arounds in the warm-up arithmetic, at extreme but valid configured numbers.
//
// (a) coolDownTokens computes the refill as int64(float64(old) + elapsedMs*threshold/intervalMs) and caps it
// afterwards. A new calculator has lastFilledTime 0, so the first refill uses the time since 1970 (1.8e12 ms):
// for any threshold above about 5e9 per second the product is beyond the int64 range, the conversion yields
// math.MinInt64 (amd64), which passes the "<= maxToken" cap, and the bucket is then set to 0 - empty, that is
// fully warm. The rule has no cold phase after loading.
//
// (b) NewWarmUpTrafficShapingCalculator computes float64(1.0+coldFactor) in uint32: for WarmUpColdFactor
// 4294967295 the sum wraps to 0, the room above the warning line becomes +Inf (saturated to 2^61 tokens) and
// the first refill puts about 2e12 tokens into the bucket, which drain by one token per second: the rule
// admits one request per second for tens of thousands of years.
func TestAuditWarmUpIntegerWrapAtExtremeNumbers(t *testing.T) {
	clk := auditSetup(t)

	t.Run("threshold 1e10: no cold phase after loading", func(t *testing.T) {
		const (
			res   = "audit-c11-f3-threshold"
			base0 = int64(2_003_000_000_000)
			T     = 1e10
		)
		clk.set(base0)
		auditLoad(t, &flow.Rule{Resource: res, TokenCalculateStrategy: flow.WarmUp, ControlBehavior: flow.Reject,
			Threshold: T, WarmUpPeriodSec: 10, WarmUpColdFactor: 3})
		admitted := 0.0
		for i := 0; i < 3; i++ { // three requests of 3e9 tokens in the first 30 ms after loading
			clk.set(base0 + int64(i)*10)
			if e, b := sentinel.Entry(res, sentinel.WithBatchCount(3_000_000_000)); b == nil {
				admitted += 3e9
				e.Exit()
			}
		}
		cold := T / 3
		if admitted > cold*1.1 {
			t.Errorf("warm-up rule {Threshold 1e10/s, WarmUpPeriodSec 10, cold factor 3}, never used before: in the first second after "+
				"loading it admitted %.3g tokens; the property demands that the rate starts no higher than about threshold/coldFactor = %.3g "+
				"after the resource has been idle. Cause: the first refill (ms since 1970 x threshold / 1000 = %.3g) does not fit int64 "+
				"(max %.3g), wraps to MinInt64, passes the cap at maxToken and leaves the bucket empty (warm).",
				admitted, cold, float64(base0)*T/1000, float64(math.MaxInt64))
		}
	})

	t.Run("cold factor MaxUint32: one token per second for ever", func(t *testing.T) {
		perSecond := func(res string, base0 int64, coldFactor uint32) []int {
			clk.set(base0)
			auditLoad(t, &flow.Rule{Resource: res, TokenCalculateStrategy: flow.WarmUp, ControlBehavior: flow.Reject,
				Threshold: 1000, WarmUpPeriodSec: 10, WarmUpColdFactor: coldFactor})
			out := make([]int, 0, 120)
			for s := int64(0); s < 120; s++ {
				n := 0
				for k := int64(0); k < 200; k++ { // 200 single-token requests per second
					clk.set(base0 + s*1000 + k*5)
					if e, b := sentinel.Entry(res); b == nil {
						n++
						e.Exit()
					}
				}
				out = append(out, n)
			}
			return out
		}
		control := perSecond("audit-c11-f3-cf-control", 2_004_000_000_000, math.MaxUint32-1)
		got := perSecond("audit-c11-f3-cf", 2_005_000_000_000, math.MaxUint32)
		if control[119] != 200 {
			t.Fatalf("control (cold factor MaxUint32-1) does not admit the demand after 120 s: %v", control)
		}
		if got[119] < 180 {
			t.Errorf("warm-up rule {Threshold 1000/s, WarmUpPeriodSec 10, WarmUpColdFactor %d}: 200 single-token requests per second "+
				"for 120 s; in the last second %d were admitted (with cold factor %d: %d). The property demands that the rule reaches "+
				"the full threshold after sustained demand for the warm-up period (10 s). Cause: 1+coldFactor is computed in uint32 and "+
				"wraps to 0, maxToken becomes 2^61 and the bucket is filled with ms-since-1970 tokens that drain at one per second. "+
				"Admitted per second (every 10th): %v", uint32(math.MaxUint32), got[119], uint32(math.MaxUint32-1), control[119],
				fmt.Sprint(got[0], got[10], got[20], got[30], got[60], got[119]))
		}
	})
}
