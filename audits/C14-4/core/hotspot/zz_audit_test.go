package hotspot_test

// Audit of the property "reloading rules does not disturb the runtime state of unchanged rules".
// Both tests use only the exported API, the way an application that registers its own strategy does.

import (
	"errors"
	"sync"
	"sync/atomic"
	"testing"
	"time"

	sentinel "github.com/alibaba/sentinel-golang/api"
	"github.com/alibaba/sentinel-golang/core/base"
	cb "github.com/alibaba/sentinel-golang/core/circuitbreaker"
	"github.com/alibaba/sentinel-golang/core/hotspot"
	"github.com/alibaba/sentinel-golang/util"
)

// auditClock is a clock that only moves when the test says so.
type auditClock struct{ ns int64 }

func (c *auditClock) Now() time.Time            { return time.Unix(0, atomic.LoadInt64(&c.ns)) }
func (c *auditClock) Sleep(time.Duration)       {}
func (c *auditClock) CurrentTimeMillis() uint64 { return uint64(atomic.LoadInt64(&c.ns)) / 1e6 }
func (c *auditClock) CurrentTimeNano() uint64   { return uint64(atomic.LoadInt64(&c.ns)) }

// ---------------------------------------------------------------------------------------------------
// Finding 1: circuit breaker of a strategy registered with SetCircuitBreakerGenerator
// ---------------------------------------------------------------------------------------------------

// auditLatchBreaker is a minimal user-defined breaker: the first failed request opens it for
// RetryTimeoutMs. It implements exactly the exported CircuitBreaker interface (a type outside the
// package cannot implement anything else).
type auditLatchBreaker struct {
	rule      *cb.Rule
	mu        sync.Mutex
	openUntil uint64
}

func (b *auditLatchBreaker) BoundRule() *cb.Rule    { return b.rule }
func (b *auditLatchBreaker) BoundStat() interface{} { return nil }
func (b *auditLatchBreaker) TryPass(*base.EntryContext) bool {
	b.mu.Lock()
	defer b.mu.Unlock()
	return util.CurrentTimeMillis() >= b.openUntil
}
func (b *auditLatchBreaker) CurrentState() cb.State {
	if b.TryPass(nil) {
		return cb.Closed
	}
	return cb.Open
}
func (b *auditLatchBreaker) OnRequestComplete(_ uint64, err error) {
	if err == nil {
		return
	}
	b.mu.Lock()
	defer b.mu.Unlock()
	b.openUntil = util.CurrentTimeMillis() + uint64(b.rule.RetryTimeoutMs)
}

// auditBreakerRequest sends one request through the circuit breaker slots; it reports whether the request
// was blocked. A request that passes completes at once, with an error if fail is set.
func auditBreakerRequest(sc *base.SlotChain, res string, fail bool) (blocked bool) {
	e, b := sentinel.Entry(res, sentinel.WithSlotChain(sc))
	if b != nil {
		return true
	}
	if fail {
		sentinel.TraceError(e, errors.New("audit: failed call"))
	}
	e.Exit()
	return false
}

func auditBreakerScenario(t *testing.T, strategy cb.Strategy, res string) {
	util.SetClock(&auditClock{ns: 1900000000 * 1e9})
	defer util.SetClock(util.NewRealClock())
	defer cb.ClearRules()

	sc := base.NewSlotChain()
	sc.AddRuleCheckSlot(cb.DefaultSlot)
	sc.AddStatSlot(cb.DefaultMetricStatSlot)

	rule := func(id string) *cb.Rule {
		return &cb.Rule{Id: id, Resource: res, Strategy: strategy, RetryTimeoutMs: 60000,
			MinRequestAmount: 1, StatIntervalMs: 10000, Threshold: 1}
	}
	load := func(step string, rules ...*cb.Rule) {
		if _, err := cb.LoadRules(rules); err != nil {
			t.Fatalf("%s: LoadRules failed: %v", step, err)
		}
	}

	load("load [X]", rule("X"))
	if auditBreakerRequest(sc, res, true) {
		t.Fatalf("the first request must pass")
	}
	if !auditBreakerRequest(sc, res, false) {
		t.Fatalf("precondition: the failed request must have opened the breaker for 60 s")
	}

	// The rule gets another ID and nothing else changes: the breaker stays (this works).
	load("load [B]", rule("B"))
	if !auditBreakerRequest(sc, res, false) {
		t.Fatalf("precondition: after the ID-only load [B] the breaker must still be open")
	}

	// From here on B is field-for-field identical, ID included, in every list that is loaded.
	// Another rule with the same fields is added under the name the first rule once had ...
	load("load [B, X]", rule("B"), rule("X"))
	if !auditBreakerRequest(sc, res, false) {
		t.Fatalf("after load [B, X] the resource must still be blocked")
	}
	// ... and removed again. The clock has not moved: B's breaker has 60 s left.
	load("load [B]", rule("B"))
	if !auditBreakerRequest(sc, res, false) {
		t.Errorf("strategy %d: rule B was field-for-field identical (ID included) in the lists [B], [B, X], [B], and its "+
			"breaker had been opened for 60000 ms at a clock that has not moved since; after the loads that only added "+
			"and removed the other rule X the request PASSED. The property demands that the open breaker of an unchanged "+
			"rule stays open with the same deadline whatever other rules are added or removed: B's breaker was handed "+
			"to the added rule X (it still goes by the ID 'X' of the rule object it was built for) and B got a new, closed one.", strategy)
	}
}

func TestAuditCustomStrategyBreakerOfUnchangedRuleLostToNamesake(t *testing.T) {
	const custom cb.Strategy = 1400
	if err := cb.SetCircuitBreakerGenerator(custom, func(r *cb.Rule, _ interface{}) (cb.CircuitBreaker, error) {
		return &auditLatchBreaker{rule: r}, nil
	}); err != nil {
		t.Fatal(err)
	}
	defer cb.RemoveCircuitBreakerGenerator(custom)

	// control: the very same sequence with a built-in strategy keeps B's breaker open
	t.Run("control_builtin_ErrorCount", func(t *testing.T) { auditBreakerScenario(t, cb.ErrorCount, "audit-c14-cb-builtin") })
	t.Run("custom_strategy", func(t *testing.T) { auditBreakerScenario(t, custom, "audit-c14-cb-custom") })
}

// ---------------------------------------------------------------------------------------------------
// Finding 2: hot-parameter controller of a control behaviour registered with SetTrafficShapingGenerator
// ---------------------------------------------------------------------------------------------------

// auditOnceController is a minimal user-defined controller: every value of the parameter passes
// Threshold times, then it is rejected. It implements exactly the exported interface.
type auditOnceController struct {
	rule   *hotspot.Rule
	metric *hotspot.ParamsMetric
	mu     sync.Mutex
	seen   map[interface{}]int64
}

func (c *auditOnceController) BoundParamIndex() int               { return c.rule.ParamIndex }
func (c *auditOnceController) BoundMetric() *hotspot.ParamsMetric { return c.metric }
func (c *auditOnceController) BoundRule() *hotspot.Rule           { return c.rule }
func (c *auditOnceController) ExtractArgs(ctx *base.EntryContext) interface{} {
	if c.rule.ParamIndex < len(ctx.Input.Args) {
		return ctx.Input.Args[c.rule.ParamIndex]
	}
	return nil
}
func (c *auditOnceController) PerformChecking(arg interface{}, batch int64) *base.TokenResult {
	c.mu.Lock()
	defer c.mu.Unlock()
	if c.seen[arg]+batch > c.rule.Threshold {
		return base.NewTokenResultBlockedWithCause(base.BlockTypeHotSpotParamFlow, "audit: value used up", c.rule, nil)
	}
	c.seen[arg] += batch
	return nil
}

func auditHotspotRequest(sc *base.SlotChain, res string, arg interface{}) (blocked bool) {
	e, b := sentinel.Entry(res, sentinel.WithSlotChain(sc), sentinel.WithArgs(arg))
	if b != nil {
		return true
	}
	e.Exit()
	return false
}

func auditHotspotScenario(t *testing.T, behavior hotspot.ControlBehavior, res string) {
	util.SetClock(&auditClock{ns: 1900000000 * 1e9})
	defer util.SetClock(util.NewRealClock())
	defer hotspot.ClearRules()

	sc := base.NewSlotChain()
	sc.AddRuleCheckSlot(hotspot.DefaultSlot)
	sc.AddStatSlot(hotspot.DefaultConcurrencyStatSlot)

	rule := func(id string) *hotspot.Rule {
		return &hotspot.Rule{ID: id, Resource: res, MetricType: hotspot.QPS, ControlBehavior: behavior,
			ParamIndex: 0, Threshold: 1, DurationInSec: 3600}
	}
	load := func(step string, rules ...*hotspot.Rule) {
		if _, err := hotspot.LoadRules(rules); err != nil {
			t.Fatalf("%s: LoadRules failed: %v", step, err)
		}
	}

	load("load [X]", rule("X"))
	if auditHotspotRequest(sc, res, "v") {
		t.Fatalf("the first request for value v must pass")
	}
	if !auditHotspotRequest(sc, res, "v") {
		t.Fatalf("precondition: value v has used its one token of the hour")
	}
	load("load [B]", rule("B")) // ID-only change: the controller stays (this works)
	if !auditHotspotRequest(sc, res, "v") {
		t.Fatalf("precondition: after the ID-only load [B] value v must still be used up")
	}
	// From here on B is field-for-field identical, ID included, in every list that is loaded.
	// Another rule with the same fields is added under the name the first rule once had, and removed again.
	// (No request in between: it would be counted by whatever controller stands for B at that moment.)
	load("load [B, X]", rule("B"), rule("X"))
	load("load [B]", rule("B"))
	if !auditHotspotRequest(sc, res, "v") {
		t.Errorf("control behaviour %d: rule B was field-for-field identical (ID included) in the lists [B], [B, X], [B]; "+
			"value v had used its single token of the hour and the clock has not moved, yet after the loads that only added "+
			"and removed the other rule X the request for v PASSED. The property demands that the hot-parameter counters of an "+
			"unchanged rule are kept whatever other rules are added or removed: B's controller was handed to the added rule X "+
			"(it still goes by the ID 'X' of the rule object it was built for) and B got a new one without counters.", behavior)
	}
}

func TestAuditCustomBehaviorHotspotCountersOfUnchangedRuleLostToNamesake(t *testing.T) {
	const custom hotspot.ControlBehavior = 1400
	if err := hotspot.SetTrafficShapingGenerator(custom, func(r *hotspot.Rule, reuse *hotspot.ParamsMetric) hotspot.TrafficShapingController {
		if reuse == nil {
			reuse = &hotspot.ParamsMetric{}
		}
		return &auditOnceController{rule: r, metric: reuse, seen: make(map[interface{}]int64)}
	}); err != nil {
		t.Fatal(err)
	}
	defer hotspot.RemoveTrafficShapingGenerator(custom)

	// control: the very same sequence with the built-in Reject behaviour keeps B's counters
	t.Run("control_builtin_Reject", func(t *testing.T) { auditHotspotScenario(t, hotspot.Reject, "audit-c14-hs-builtin") })
	t.Run("custom_behavior", func(t *testing.T) { auditHotspotScenario(t, custom, "audit-c14-hs-custom") })
}

// ---------------------------------------------------------------------------------------------------
// Finding 3: tokens a value spends while LoadRules is running are forgotten by the modified rule
// ---------------------------------------------------------------------------------------------------

// auditHotspotBudgetScenario: rule M allows 3 requests per value and hour; value v passes once; M is
// modified to 2 per hour (nothing else, its statistic parameters are unchanged). One more request for v
// arrives either just before LoadRules is called or while LoadRules is running - the latter is modelled
// deterministically: the same load adds a rule of a user-registered control behaviour behind M, and the
// user's generator, which LoadRules calls while it builds the new controllers, sends the request.
// Either way two requests of v have passed when the load is over, the budget is 2, the clock has not
// moved: the next request for v must be rejected.
func auditHotspotBudgetScenario(t *testing.T, custom hotspot.ControlBehavior, hook *func(), duringLoad bool, res string) {
	util.SetClock(&auditClock{ns: 1900000000 * 1e9})
	defer util.SetClock(util.NewRealClock())
	defer hotspot.ClearRules()
	defer func() { *hook = nil }()

	sc := base.NewSlotChain()
	sc.AddRuleCheckSlot(hotspot.DefaultSlot)
	sc.AddStatSlot(hotspot.DefaultConcurrencyStatSlot)

	m := func(threshold int64) *hotspot.Rule {
		return &hotspot.Rule{ID: "M", Resource: res, MetricType: hotspot.QPS, ControlBehavior: hotspot.Reject,
			ParamIndex: 0, Threshold: threshold, DurationInSec: 3600}
	}
	// the added rule never rejects anything
	added := &hotspot.Rule{ID: "C", Resource: res, MetricType: hotspot.QPS, ControlBehavior: custom,
		ParamIndex: 0, Threshold: 1 << 40, DurationInSec: 1}

	if _, err := hotspot.LoadRules([]*hotspot.Rule{m(3)}); err != nil {
		t.Fatal(err)
	}
	if auditHotspotRequest(sc, res, "v") {
		t.Fatalf("request 1 of value v must pass (budget 3)")
	}
	second := func() {
		if auditHotspotRequest(sc, res, "v") {
			t.Errorf("request 2 of value v must pass: one of three tokens (old rule) or one of two (new rule) is spent")
		}
	}
	if duringLoad {
		*hook = second
	} else {
		second()
	}
	if _, err := hotspot.LoadRules([]*hotspot.Rule{m(2), added}); err != nil {
		t.Fatal(err)
	}
	*hook = nil
	if !auditHotspotRequest(sc, res, "v") {
		t.Errorf("rule M was modified from 3 to 2 requests per value and hour, its statistic parameters unchanged. Value v had "+
			"passed once before the load and once more while LoadRules was running (request sent during the load: %v); the clock "+
			"has not moved. With the budget of 2 spent, request 3 of v must be rejected whether request 2 is ordered before or after "+
			"the load - it PASSED: the modified rule was given a copy of the counters taken before request 2, and what the still "+
			"published old controller counted after the copy was dropped with it. The property demands that a modified rule whose "+
			"statistic parameters are unchanged keeps its accumulated statistics, at every position a reload is inserted.", duringLoad)
	}
}

func TestAuditHotspotTokensSpentWhileLoadingAreForgotten(t *testing.T) {
	const custom hotspot.ControlBehavior = 1401
	var hook func()
	if err := hotspot.SetTrafficShapingGenerator(custom, func(r *hotspot.Rule, reuse *hotspot.ParamsMetric) hotspot.TrafficShapingController {
		if h := hook; h != nil {
			h() // a request that arrives while LoadRules is building the new controllers
		}
		if reuse == nil {
			reuse = &hotspot.ParamsMetric{}
		}
		return &auditOnceController{rule: r, metric: reuse, seen: make(map[interface{}]int64)}
	}); err != nil {
		t.Fatal(err)
	}
	defer hotspot.RemoveTrafficShapingGenerator(custom)

	t.Run("control_request_just_before_the_load", func(t *testing.T) {
		auditHotspotBudgetScenario(t, custom, &hook, false, "audit-c14-hs-budget-before")
	})
	t.Run("request_while_the_load_is_running", func(t *testing.T) {
		auditHotspotBudgetScenario(t, custom, &hook, true, "audit-c14-hs-budget-during")
	})
}
