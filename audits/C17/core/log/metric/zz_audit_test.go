package metric

import (
	"fmt"
	"os"
	"sync"
	"testing"
	"time"

	"github.com/alibaba/sentinel-golang/core/base"
	"github.com/alibaba/sentinel-golang/core/config"
	"github.com/alibaba/sentinel-golang/util"
)

const auditApp = "auditapp"

// auditEnv points the metric log at a fresh directory and installs a mock clock.
func auditEnv(t *testing.T) (dir string, nowMs uint64) {
	t.Helper()
	dir, err := os.MkdirTemp("", "sentinel-metric-audit")
	if err != nil {
		t.Fatal(err)
	}
	cfg := config.NewDefaultConfig()
	cfg.Sentinel.App.Name = auditApp
	cfg.Sentinel.Log.Dir = dir
	cfg.Sentinel.Log.UsePid = false
	config.ResetGlobalConfig(cfg)

	prevClock := util.CurrentClock()
	util.SetClock(util.NewMockClock())
	t.Cleanup(func() {
		util.SetClock(prevClock)
		config.ResetGlobalConfig(config.NewDefaultConfig())
		_ = os.RemoveAll(dir)
	})
	nowMs = util.CurrentTimeMillis()
	return dir, nowMs - nowMs%1000
}

func auditDescribe(items []*base.MetricItem) string {
	s := "["
	for i, it := range items {
		if i > 0 {
			s += " "
		}
		s += fmt.Sprintf("%s@%d", it.Resource, it.Timestamp/1000)
	}
	return s + "]"
}

// writeSameSecondTwice writes two batches for second S and one batch for second S+1 and returns
// what FindFromTimeWithMaxLines(S, 2) and the follow-up page FindFromTimeWithMaxLines(S+1, 2) deliver.
func auditPageThroughLog(t *testing.T, maxSize uint64) (page1, page2 []*base.MetricItem, files int) {
	dir, sec := auditEnv(t)
	w, err := NewDefaultMetricLogWriterOfApp(maxSize, 10, auditApp)
	if err != nil {
		t.Fatal(err)
	}
	defer w.(*DefaultMetricLogWriter).Close()
	batches := []struct {
		ts    uint64
		names []string
	}{
		{sec, []string{"a1", "a2"}},  // second S, first batch
		{sec, []string{"b1", "b2"}},  // second S again (seconds are non-decreasing: accepted)
		{sec + 1000, []string{"c1"}}, // second S+1
	}
	for _, b := range batches {
		items := make([]*base.MetricItem, 0, len(b.names))
		for _, n := range b.names {
			items = append(items, &base.MetricItem{Resource: n, PassQps: 1})
		}
		if err := w.Write(b.ts, items); err != nil {
			t.Fatal(err)
		}
	}
	names, err := listMetricFiles(dir, FormMetricFileName(auditApp, false))
	if err != nil {
		t.Fatal(err)
	}
	s, err := NewDefaultMetricSearcher(dir, FormMetricFileName(auditApp, false))
	if err != nil {
		t.Fatal(err)
	}
	// sanity: a time range query sees all five items, so they are all inside the retained files
	all, err := s.FindByTimeAndResource(sec, sec+1000, "")
	if err != nil || len(all) != 5 {
		t.Fatalf("precondition: time range query must see the 5 written items, got %s err=%v", auditDescribe(all), err)
	}
	if page1, err = s.FindFromTimeWithMaxLines(sec, 2); err != nil {
		t.Fatal(err)
	}
	if page2, err = s.FindFromTimeWithMaxLines(sec+1000, 2); err != nil {
		t.Fatal(err)
	}
	return page1, page2, len(names)
}

// Finding 1: a second whose items straddle a file roll is cut short by the line-limited query.
func TestAuditMaxLinesQueryDropsRestOfSecondAfterFileRoll(t *testing.T) {
	// control: one big file, no roll
	ctl1, ctl2, ctlFiles := auditPageThroughLog(t, 1<<20)
	if ctlFiles != 1 || len(ctl1) != 4 || len(ctl2) != 1 {
		t.Fatalf("control run without a roll is expected to return the whole second S (4 items) and then c1; files=%d page1=%s page2=%s",
			ctlFiles, auditDescribe(ctl1), auditDescribe(ctl2))
	}
	// same writes, same queries, but the file size limit (64 bytes) makes the writer roll after the first batch
	got1, got2, files := auditPageThroughLog(t, 64)
	if files < 2 {
		t.Fatalf("expected the small size limit to cause a roll, files=%d", files)
	}
	if len(got1) != len(ctl1) {
		t.Errorf("FindFromTimeWithMaxLines(S, 2) returned %s when second S is split over two files by a size roll, but %s when the same items are in one file. "+
			"The follow-up page FindFromTimeWithMaxLines(S+1, 2) returns %s, so b1 and b2 (accepted, still in a retained file) are not delivered by a line-limited read from S nor from S+1. "+
			"The property demands that every retained item can be read back from a time with a line limit regardless of how many file rolls happened.",
			auditDescribe(got1), auditDescribe(ctl1), auditDescribe(got2))
	}
}

// Finding 2: one searcher instance used by several goroutines.
func TestAuditConcurrentQueriesOnOneSearcher(t *testing.T) {
	dir, sec := auditEnv(t)
	w, err := NewDefaultMetricLogWriterOfApp(200, 100, auditApp)
	if err != nil {
		t.Fatal(err)
	}
	const seconds = 40
	for i := 0; i < seconds; i++ {
		items := []*base.MetricItem{{Resource: "a", PassQps: uint64(i)}, {Resource: "b", PassQps: uint64(i)}}
		if err := w.Write(sec+uint64(i)*1000, items); err != nil {
			t.Fatal(err)
		}
	}
	_ = w.(*DefaultMetricLogWriter).Close()
	s, err := NewDefaultMetricSearcher(dir, FormMetricFileName(auditApp, false))
	if err != nil {
		t.Fatal(err)
	}
	// each query asks for exactly one second and must get exactly the two items of that second
	check := func(i int) string {
		b := sec + uint64(i)*1000
		got, err := s.FindByTimeAndResource(b, b, "")
		if err != nil {
			return fmt.Sprintf("query for second #%d failed: %v", i, err)
		}
		if len(got) != 2 || got[0].PassQps != uint64(i) || got[1].PassQps != uint64(i) {
			return fmt.Sprintf("query for second #%d returned %d items %s (PassQps marks the second index), want the 2 items of that second", i, len(got), auditDescribe(got))
		}
		return ""
	}
	// sequentially everything is fine
	for i := 0; i < seconds; i++ {
		if msg := check((i * 7) % seconds); msg != "" {
			t.Fatalf("sequential precondition: %s", msg)
		}
	}
	var (
		mu    sync.Mutex
		first string
		wg    sync.WaitGroup
	)
	report := func(msg string) {
		mu.Lock()
		if first == "" {
			first = msg
		}
		mu.Unlock()
	}
	failed := func() bool {
		mu.Lock()
		defer mu.Unlock()
		return first != ""
	}
	deadline := time.Now().Add(20 * time.Second)
	for g := 0; g < 8; g++ {
		wg.Add(1)
		go func(g int) {
			defer wg.Done()
			defer func() {
				if r := recover(); r != nil {
					report(fmt.Sprintf("query panicked: %v", r))
				}
			}()
			for k := 0; !failed() && time.Now().Before(deadline); k++ {
				if msg := check((k*(2*g+1) + g) % seconds); msg != "" {
					report(msg)
					return
				}
			}
		}(g)
	}
	wg.Wait()
	if first != "" {
		t.Errorf("8 goroutines querying one DefaultMetricSearcher over a closed, unchanging log: %s. "+
			"Every retained item must be read back unchanged whatever other queries run on the same searcher, and searching must not fail or panic; "+
			"the searcher has a mutex field and the reader is documented as 'guarded by the outside MetricSearcher', but the mutex is never locked.", first)
	}
}
