package hotspot_test

import (
	"math"
	"testing"

	sentinel "github.com/alibaba/sentinel-golang/api"
	"github.com/alibaba/sentinel-golang/core/base"
	"github.com/alibaba/sentinel-golang/core/hotspot"
)

// auditChain is a slot chain made of the two hotspot slots only (the rule check and the
// concurrency statistic), used through the public api.Entry.
func auditChain() *base.SlotChain {
	sc := base.NewSlotChain()
	sc.AddRuleCheckSlot(hotspot.DefaultSlot)
	sc.AddStatSlot(hotspot.DefaultConcurrencyStatSlot)
	return sc
}

func auditEntry(sc *base.SlotChain, res string, args ...interface{}) (*base.SentinelEntry, *base.BlockError) {
	return sentinel.Entry(res, sentinel.WithSlotChain(sc), sentinel.WithArgs(args...))
}

// Finding 1: a concurrency rule is loaded again with a change in a field that has no meaning for the
// in-flight count of a value (cache capacity, DurationInSec, ControlBehavior - the last two are
// documented as "only takes effect when MetricType is QPS"). The rule gets brand-new, empty counters
// while the entries admitted before are still in flight.
func TestAuditReloadOfConcurrencyRuleForgetsEntriesInFlight(t *testing.T) {
	sc := auditChain()
	defer hotspot.ClearRules()

	variants := []struct {
		name   string
		modify func(r *hotspot.Rule)
	}{
		{"ParamsMaxCapacity 100 -> 1000", func(r *hotspot.Rule) { r.ParamsMaxCapacity = 1000 }},
		{"DurationInSec 0 -> 1 (QPS-only field)", func(r *hotspot.Rule) { r.DurationInSec = 1 }},
		{"ControlBehavior Reject -> Throttling (QPS-only field)", func(r *hotspot.Rule) { r.ControlBehavior = hotspot.Throttling }},
	}
	for i, v := range variants {
		res := "audit-c06-reload-" + string(rune('a'+i))
		first := &hotspot.Rule{Resource: res, MetricType: hotspot.Concurrency, ParamIndex: 0, Threshold: 1, ParamsMaxCapacity: 100}
		if _, err := hotspot.LoadRules([]*hotspot.Rule{first}); err != nil {
			t.Fatal(err)
		}
		e1, b := auditEntry(sc, res, "a")
		if b != nil {
			t.Fatalf("%s: the first entry for value a was blocked", v.name)
		}
		// sanity: the threshold is enforced before the reload
		if e, b := auditEntry(sc, res, "a"); b == nil {
			e.Exit()
			t.Fatalf("%s: sanity check failed, threshold 1 not enforced before the reload", v.name)
		}

		second := *first
		v.modify(&second)
		if _, err := hotspot.LoadRules([]*hotspot.Rule{&second}); err != nil {
			t.Fatal(err)
		}
		e2, b := auditEntry(sc, res, "a")
		if b == nil {
			t.Errorf("%s: threshold 1 for value \"a\", one entry for \"a\" admitted and NOT exited, the rule loaded again "+
				"with only that field changed: a second entry for \"a\" was admitted (2 in flight, threshold 1). "+
				"The property demands admission only while the entries in flight for the value are fewer than the threshold, "+
				"and an in-flight figure that always equals the number of live entries (it was reset to 0 by the reload).", v.name)
			e2.Exit()
		}
		e1.Exit()
	}
}

// Finding 2: when a rule is modified, the counters it takes over are those of the FIRST old rule of the
// resource with the same metric type / capacity, whatever parameter that old rule governed
// (Rule.IsStatReusable does not look at ParamIndex / ParamKey). Removing the rule on parameter 0 and
// editing the rule on parameter 1 in the same load gives the latter the in-flight counts of parameter 0
// and drops its own.
func TestAuditModifiedRuleTakesOverCountersOfAnotherParameter(t *testing.T) {
	sc := auditChain()
	defer hotspot.ClearRules()
	res := "audit-c06-donor"

	ruleA := &hotspot.Rule{Resource: res, MetricType: hotspot.Concurrency, ParamIndex: 0, Threshold: 10}
	ruleB := &hotspot.Rule{Resource: res, MetricType: hotspot.Concurrency, ParamIndex: 1, Threshold: 1}
	if _, err := hotspot.LoadRules([]*hotspot.Rule{ruleA, ruleB}); err != nil {
		t.Fatal(err)
	}
	live, b := auditEntry(sc, res, "x", "y")
	if b != nil {
		t.Fatal("the first entry (x, y) was blocked")
	}
	defer live.Exit()
	// sanity: one entry with y at position 1 is in flight, threshold 1 -> blocked
	if e, b := auditEntry(sc, res, "q", "y"); b == nil {
		e.Exit()
		t.Fatal("sanity check failed: threshold 1 on parameter 1 not enforced before the reload")
	}

	// rule A is dropped, rule B gets a specific item; nothing else changes for parameter 1
	ruleB2 := &hotspot.Rule{Resource: res, MetricType: hotspot.Concurrency, ParamIndex: 1, Threshold: 1,
		SpecificItems: map[interface{}]int64{"vip": 5}}
	if _, err := hotspot.LoadRules([]*hotspot.Rule{ruleB2}); err != nil {
		t.Fatal(err)
	}

	if e, b := auditEntry(sc, res, "q", "y"); b == nil {
		t.Errorf("rule on parameter 1 (threshold 1) edited while entry (x, y) is in flight, the rule on parameter 0 removed in the same load: " +
			"entry (q, y) was admitted, so 2 entries are in flight for value \"y\" of parameter 1 with threshold 1. " +
			"The rule took over the counters of the removed rule on parameter 0 and lost its own; the property demands that the " +
			"in-flight figure of a value equals its live entries and that admission stops at the threshold.")
		defer e.Exit()
	}
	if e, b := auditEntry(sc, res, "r", "x"); b != nil {
		t.Errorf("after the same load, entry (r, x) was BLOCKED by the rule on parameter 1 (threshold 1) although no live entry has \"x\" " +
			"as parameter 1: the unit counted is the one entry (x, y) took for parameter 0 under the removed rule. " +
			"The property demands admission when the entries in flight for the value are fewer than the threshold, independently of other values.")
	} else {
		e.Exit()
	}
}

// Finding 3: the counter table is a Go map keyed by the raw argument. Arguments that cannot work as a
// map key are neither limited nor counted: a value of a non-comparable type (slice, map, struct holding
// one) makes the check panic, the panic is recovered by the slot chain and the request is passed;
// a NaN never finds the counter it has just created.
func TestAuditArgumentsThatCannotBeMapKeysAreNeverLimited(t *testing.T) {
	sc := auditChain()
	defer hotspot.ClearRules()

	t.Run("slice argument, threshold 0", func(t *testing.T) {
		res := "audit-c06-slice-0"
		if _, err := hotspot.LoadRules([]*hotspot.Rule{{Resource: res, MetricType: hotspot.Concurrency, ParamIndex: 0, Threshold: 0}}); err != nil {
			t.Fatal(err)
		}
		// sanity: threshold 0 blocks an ordinary value
		if e, b := auditEntry(sc, res, "a"); b == nil {
			e.Exit()
			t.Fatal("sanity check failed: threshold 0 admitted value a")
		}
		e, b := auditEntry(sc, res, []string{"a"})
		if b == nil {
			t.Errorf("threshold 0: a request whose governed argument is the slice []string{\"a\"} was admitted " +
				"(the check panicked on the unhashable map key and the slot chain passed the request). " +
				"The property demands admission only if the entries in flight for the value (>= 0) are fewer than the threshold (0): never.")
			e.Exit()
		}
	})

	t.Run("same slice argument twice, threshold 1", func(t *testing.T) {
		res := "audit-c06-slice-1"
		if _, err := hotspot.LoadRules([]*hotspot.Rule{{Resource: res, MetricType: hotspot.Concurrency, ParamIndex: 0, Threshold: 1}}); err != nil {
			t.Fatal(err)
		}
		arg := []string{"a"}
		e1, b := auditEntry(sc, res, arg)
		if b != nil {
			t.Fatal("first entry blocked")
		}
		defer e1.Exit()
		e2, b := auditEntry(sc, res, arg)
		if b == nil {
			t.Errorf("threshold 1: two entries with the very same slice as governed argument are in flight together; " +
				"the property demands that the second is blocked while the first has not exited.")
			e2.Exit()
		}
	})

	t.Run("NaN argument, threshold 1", func(t *testing.T) {
		res := "audit-c06-nan"
		if _, err := hotspot.LoadRules([]*hotspot.Rule{{Resource: res, MetricType: hotspot.Concurrency, ParamIndex: 0, Threshold: 1}}); err != nil {
			t.Fatal(err)
		}
		// sanity with an ordinary float
		s1, b := auditEntry(sc, res, 1.5)
		if b != nil {
			t.Fatal("first entry for 1.5 blocked")
		}
		if e, b := auditEntry(sc, res, 1.5); b == nil {
			e.Exit()
			t.Fatal("sanity check failed: threshold 1 not enforced for 1.5")
		}
		s1.Exit()

		nan := math.NaN()
		var live []*base.SentinelEntry
		for i := 0; i < 5; i++ {
			e, b := auditEntry(sc, res, nan)
			if b != nil {
				break
			}
			live = append(live, e)
		}
		if len(live) > 1 {
			t.Errorf("threshold 1: %d entries for the float64 argument NaN are in flight together (none of them was counted: "+
				"the counter created by the check is never found again by the statistic slot). "+
				"The property demands at most 1 in flight for a value with threshold 1 and a figure equal to the live entries.", len(live))
		}
		for _, e := range live {
			e.Exit()
		}
	})
}
