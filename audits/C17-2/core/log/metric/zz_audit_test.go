package metric

import (
	"fmt"
	"sync"
	"testing"
	"time"

	"github.com/alibaba/sentinel-golang/core/base"
	"github.com/alibaba/sentinel-golang/core/config"
	"github.com/alibaba/sentinel-golang/util"
)

// auditFixedClock is a clock that stands still at the given millisecond.
type auditFixedClock struct{ ms uint64 }

func (c *auditFixedClock) Now() time.Time            { return time.Unix(0, int64(c.ms)*1e6) }
func (c *auditFixedClock) Sleep(d time.Duration)     {}
func (c *auditFixedClock) CurrentTimeMillis() uint64 { return c.ms }
func (c *auditFixedClock) CurrentTimeNano() uint64   { return c.ms * 1e6 }

const auditApp = "audit-app"

// auditNewWriter creates a writer through the public constructor; the log directory is a fresh
// temporary directory and the clock stands at startMs (the writer's creation time).
func auditNewWriter(t *testing.T, startMs uint64, maxSize uint64, maxFiles uint32) (MetricLogWriter, string) {
	dir := t.TempDir()
	cfg := config.NewDefaultConfig()
	cfg.Sentinel.Log.Dir = dir
	cfg.Sentinel.Log.UsePid = false
	config.ResetGlobalConfig(cfg)
	util.SetClock(&auditFixedClock{ms: startMs})
	t.Cleanup(func() {
		config.ResetGlobalConfig(config.NewDefaultConfig())
		util.SetClock(util.NewRealClock())
	})
	w, err := NewDefaultMetricLogWriterOfApp(maxSize, maxFiles, auditApp)
	if err != nil {
		t.Fatalf("cannot create the metric log writer: %v", err)
	}
	t.Cleanup(func() { _ = w.(*DefaultMetricLogWriter).Close() })
	return w, dir
}

// auditInterleavingReader passes every call on to the library's own reader, but lets the writer
// goroutine "run" (hook) exactly once between the searcher's index lookup and the reading of the
// data files. It only fixes the moment at which the other goroutine is scheduled.
type auditInterleavingReader struct {
	next MetricLogReader
	once sync.Once
	hook func()
}

func (r *auditInterleavingReader) ReadMetrics(nameList []string, fileNo uint32, startOffset uint64, maxLines uint32) ([]*base.MetricItem, error) {
	r.once.Do(r.hook)
	return r.next.ReadMetrics(nameList, fileNo, startOffset, maxLines)
}

func (r *auditInterleavingReader) ReadMetricsByEndTime(nameList []string, fileNo uint32, startOffset uint64, beginMs uint64, endMs uint64, resource string) ([]*base.MetricItem, error) {
	r.once.Do(r.hook)
	return r.next.ReadMetricsByEndTime(nameList, fileNo, startOffset, beginMs, endMs, resource)
}

// Finding 1: a query that runs while the writer rolls (and thereby removes the oldest file) fails
// with an error and returns nothing, although the items it asked for sit in files that were
// retained during the whole query.
func TestAuditSearchFailsWhenWriterRollsDuringQuery(t *testing.T) {
	const startMs = uint64(1600000000123)
	startSec := startMs / 1000
	// maxSize 1: every batch fills its file, so every Write ends with a roll; at most 3 files.
	w, dir := auditNewWriter(t, startMs, 1, 3)
	write := func(sec uint64) {
		if err := w.Write(sec*1000, []*base.MetricItem{{Resource: "res", PassQps: sec - startSec}}); err != nil {
			t.Fatalf("Write of second +%d failed: %v", sec-startSec, err)
		}
	}
	write(startSec + 1)
	write(startSec + 2)
	write(startSec + 3)
	// Files now: <date>.1 (second +2), <date>.2 (second +3), <date>.3 (empty, current).

	for _, kind := range []string{"FindByTimeAndResource", "FindFromTimeWithMaxLines"} {
		searcher, err := NewDefaultMetricSearcher(dir, FormMetricFileName(auditApp, false))
		if err != nil {
			t.Fatal(err)
		}
		s := searcher.(*DefaultMetricSearcher)
		next := startSec + 4
		if kind == "FindFromTimeWithMaxLines" {
			next = startSec + 5
		}
		// Between the index lookup and the data read the writer goroutine writes one more second,
		// which rolls the file and removes the oldest one.
		s.reader = &auditInterleavingReader{next: s.reader, hook: func() { write(next) }}

		var got []*base.MetricItem
		if kind == "FindByTimeAndResource" {
			got, err = s.FindByTimeAndResource(0, (startSec+100)*1000, "")
		} else {
			got, err = s.FindFromTimeWithMaxLines(0, 1000)
		}
		files, _ := listMetricFiles(dir, FormMetricFileName(auditApp, false))
		if len(files) > 3 {
			t.Errorf("%d metric log files, the configured maximum is 3", len(files))
		}
		// The item of the second before `next` was written before the query started and its file is
		// still retained after the query, so it was retained during the whole query.
		wantQps := next - 1 - startSec
		found := false
		for _, it := range got {
			if it.PassQps == wantQps {
				found = true
			}
		}
		if err != nil || !found {
			t.Errorf("%s(from 0) while the writer rolled to the next file: err=%v, %d items returned (%s).\n"+
				"The property demands that every accepted item that is still inside the retained files can be read back "+
				"regardless of how many file rolls happened: the item of second +%d was written before the query and is "+
				"still in a retained file, but the query failed because the oldest file, which it had picked from its "+
				"(by then stale) file list, had been removed by the roll.",
				kind, err, len(got), auditKeys(got), wantQps)
		}
	}
}

func auditKeys(items []*base.MetricItem) string {
	s := ""
	for _, it := range items {
		s += fmt.Sprintf("+%d/%s ", it.PassQps, it.Resource)
	}
	return s
}

// Finding 2: a time-range query silently stops after 100000 items, in the middle of a second.
func TestAuditTimeRangeQuerySilentlyCutAfter100000Items(t *testing.T) {
	const startMs = uint64(1600000000123)
	startSec := startMs / 1000
	const perSecond = 40000
	const seconds = 3
	w, dir := auditNewWriter(t, startMs, 1<<40, 10)
	n := uint64(0)
	for s := uint64(1); s <= seconds; s++ {
		batch := make([]*base.MetricItem, 0, perSecond)
		for i := 0; i < perSecond; i++ {
			n++
			batch = append(batch, &base.MetricItem{Resource: fmt.Sprintf("res-%d", i), PassQps: n})
		}
		if err := w.Write((startSec+s)*1000, batch); err != nil {
			t.Fatalf("Write failed: %v", err)
		}
	}
	files, _ := listMetricFiles(dir, FormMetricFileName(auditApp, false))
	if len(files) != 1 {
		t.Fatalf("expected everything in one retained file, have %v", files)
	}
	searcher, err := NewDefaultMetricSearcher(dir, FormMetricFileName(auditApp, false))
	if err != nil {
		t.Fatal(err)
	}
	got, err := searcher.FindByTimeAndResource((startSec+1)*1000, (startSec+seconds)*1000, "")
	if err != nil {
		t.Fatalf("query failed: %v", err)
	}
	// What a caller can do about it: go on from the second after the last one it received.
	total := len(got)
	if len(got) > 0 && len(got) < perSecond*seconds {
		lastSec := got[len(got)-1].Timestamp / 1000
		more, err := searcher.FindByTimeAndResource((lastSec+1)*1000, (startSec+seconds)*1000, "")
		if err != nil {
			t.Fatalf("query failed: %v", err)
		}
		total += len(more)
	}
	if len(got) != perSecond*seconds {
		last := got[len(got)-1]
		t.Errorf("%d items of seconds +1..+%d were accepted and are all in the one retained file, but "+
			"FindByTimeAndResource over exactly that range returned %d items without an error; the last one is item #%d, "+
			"i.e. number %d of the %d items of second +%d. Continuing from the following second brings the total to %d, "+
			"so %d items are reached by no page.\nThe property demands that every accepted item inside the retained files "+
			"can be read back by time range and resource.",
			perSecond*seconds, seconds, len(got), last.PassQps, (last.PassQps-1)%perSecond+1, perSecond,
			last.Timestamp/1000-startSec, total, perSecond*seconds-total)
	}
}
