package metric

import (
	"fmt"
	"os"
	"path/filepath"
	"strings"
	"sync"
	"testing"
	"time"

	"github.com/alibaba/sentinel-golang/core/base"
	"github.com/alibaba/sentinel-golang/core/config"
	"github.com/alibaba/sentinel-golang/util"
)

// auditClock is a clock that stands still at a chosen millisecond.
type auditClock struct{ ms uint64 }

func (c *auditClock) Now() time.Time            { return time.Unix(0, int64(c.ms)*int64(time.Millisecond)) }
func (c *auditClock) Sleep(time.Duration)       {}
func (c *auditClock) CurrentTimeMillis() uint64 { return c.ms }
func (c *auditClock) CurrentTimeNano() uint64   { return c.ms * uint64(time.Millisecond) }

// 2020-09-13 12:26:40 UTC, far away from any day boundary in every time zone that matters here.
const auditT0Sec = uint64(1600000000)

func auditSetup(t *testing.T, usePid bool) string {
	dir := t.TempDir()
	cfg := config.NewDefaultConfig()
	cfg.Sentinel.Log.Dir = dir
	cfg.Sentinel.Log.UsePid = usePid
	config.ResetGlobalConfig(cfg)
	util.SetClock(&auditClock{ms: auditT0Sec * 1000})
	t.Cleanup(func() {
		config.ResetGlobalConfig(config.NewDefaultConfig())
		util.SetClock(util.NewRealClock())
	})
	return dir
}

func auditItem(resource string, n uint64) *base.MetricItem {
	return &base.MetricItem{Resource: resource, PassQps: n, CompleteQps: n}
}

func auditDump(items []*base.MetricItem) string {
	parts := make([]string, 0, len(items))
	for _, it := range items {
		parts = append(parts, fmt.Sprintf("%d/%s/pass=%d", it.Timestamp/1000-auditT0Sec, it.Resource, it.PassQps))
	}
	return "[" + strings.Join(parts, " ") + "]"
}

func auditLs(t *testing.T, dir string) string {
	es, err := os.ReadDir(dir)
	if err != nil {
		t.Fatal(err)
	}
	names := make([]string, 0, len(es))
	for _, e := range es {
		if !strings.HasSuffix(e.Name(), MetricIdxSuffix) {
			names = append(names, e.Name())
		}
	}
	return strings.Join(names, ", ")
}

// Finding 1: two processes of one application log with "usePid" into one directory (that is what
// the option is for). The process IDs are P and P7 (e.g. 12 and 127). The metric files of P7 are
// taken for files of P, because the file name check is a prefix test followed by an unanchored
// regular expression.
func TestAudit_SiblingProcessWhosePidStartsWithOurs(t *testing.T) {
	// (a) the searcher of process P hands out the items of process P7, after its own ones.
	{
		dir := auditSetup(t, true)
		ownBase := FormMetricFileName("audit", true) // audit-metrics.log.pid<P>
		w, err := NewDefaultMetricLogWriterOfApp(1<<20, 10, "audit")
		if err != nil {
			t.Fatal(err)
		}
		own := w.(*DefaultMetricLogWriter)
		defer own.Close()
		// the sibling process, PID = our PID followed by a 7
		sibling := &DefaultMetricLogWriter{maxSingleSize: 1 << 20, maxFileAmount: 10, baseDir: dir,
			baseFilename: ownBase + "7", mux: new(sync.RWMutex)}
		if err := sibling.initialize(); err != nil {
			t.Fatal(err)
		}
		defer sibling.Close()
		for i := uint64(1); i <= 3; i++ {
			if err := own.Write((auditT0Sec+i)*1000, []*base.MetricItem{auditItem("mine", i)}); err != nil {
				t.Fatal(err)
			}
			if err := sibling.Write((auditT0Sec+i)*1000, []*base.MetricItem{auditItem("theirs", 100+i)}); err != nil {
				t.Fatal(err)
			}
		}
		s, _ := NewDefaultMetricSearcher(dir, ownBase)
		got, err := s.FindByTimeAndResource(auditT0Sec*1000, (auditT0Sec+10)*1000, "")
		if err != nil {
			t.Fatal(err)
		}
		if len(got) != 3 || got[0].Resource != "mine" || got[1].Resource != "mine" || got[2].Resource != "mine" {
			t.Errorf("searcher for %q over seconds 0..10 returned %s (second/resource/pass); the writer of that log "+
				"accepted exactly [1/mine/pass=1 2/mine/pass=2 3/mine/pass=3]. The property demands that the accepted items are "+
				"read back in timestamp order without duplicates - items of the log %q were never written to this log, and "+
				"the result goes back from second 3 to second 1. Files: %s", ownBase, auditDump(got), ownBase+"7", auditLs(t, dir))
		}
	}
	// (b) the writer of process P, keeping at most 2 files, deletes the only file of process P7.
	{
		dir := auditSetup(t, true)
		ownBase := FormMetricFileName("audit", true)
		w, err := NewDefaultMetricLogWriterOfApp(1, 2, "audit") // rolls after every batch
		if err != nil {
			t.Fatal(err)
		}
		own := w.(*DefaultMetricLogWriter)
		defer own.Close()
		sibling := &DefaultMetricLogWriter{maxSingleSize: 1 << 20, maxFileAmount: 10, baseDir: dir,
			baseFilename: ownBase + "7", mux: new(sync.RWMutex)}
		if err := sibling.initialize(); err != nil {
			t.Fatal(err)
		}
		defer sibling.Close()
		for i := uint64(1); i <= 3; i++ {
			if err := sibling.Write((auditT0Sec+i)*1000, []*base.MetricItem{auditItem("theirs", 100+i)}); err != nil {
				t.Fatal(err)
			}
			if err := own.Write((auditT0Sec+i)*1000, []*base.MetricItem{auditItem("mine", i)}); err != nil {
				t.Fatal(err)
			}
		}
		s, _ := NewDefaultMetricSearcher(dir, ownBase+"7")
		got, err := s.FindByTimeAndResource(auditT0Sec*1000, (auditT0Sec+10)*1000, "")
		if err != nil {
			t.Fatal(err)
		}
		if len(got) != 3 {
			t.Errorf("the log %q (limit 10 files) never rolled and got 3 items in seconds 1..3, but its searcher returns %s: "+
				"its only file was deleted by the writer of %q (limit 2 files) that counted it as one of its own. The property "+
				"demands that every accepted item inside the retained files is read back. Files left: %s",
				ownBase+"7", auditDump(got), ownBase, auditLs(t, dir))
		}
	}
}

// Finding 2: two applications log into one directory (the default directory ~/logs/csp is shared by
// all applications of a user). The name of the other one ("eshop") contains ours ("shop"). Our
// writer derives the number of its next file from the other application's newest file: it re-creates
// (truncates) one of its own older files, and from then on every roll re-creates that same file, i.e.
// wipes what was just written.
func TestAudit_OtherAppWhoseNameContainsOurs(t *testing.T) {
	dir := auditSetup(t, false)
	w, err := NewDefaultMetricLogWriterOfApp(1, 10, "shop") // rolls after every batch, keeps 10 files
	if err != nil {
		t.Fatal(err)
	}
	shop := w.(*DefaultMetricLogWriter)
	defer shop.Close()
	write := func(wr *DefaultMetricLogWriter, sec uint64, res string) {
		if err := wr.Write((auditT0Sec+sec)*1000, []*base.MetricItem{auditItem(res, sec)}); err != nil {
			t.Fatal(err)
		}
	}
	write(shop, 1, "s") // -> shop-metrics.log.DATE,   then roll to .1
	write(shop, 2, "s") // -> shop-metrics.log.DATE.1, then roll to .2
	write(shop, 3, "s") // -> shop-metrics.log.DATE.2, then roll to .3
	before := auditLs(t, dir)

	w2, err := NewDefaultMetricLogWriterOfApp(1, 10, "eshop")
	if err != nil {
		t.Fatal(err)
	}
	eshop := w2.(*DefaultMetricLogWriter)
	defer eshop.Close()
	write(eshop, 3, "e") // -> eshop-metrics.log.DATE, then roll to eshop-metrics.log.DATE.1

	write(shop, 4, "s") // -> shop-metrics.log.DATE.3, then roll to ... .2 (!), which held second 3
	write(shop, 5, "s") // -> shop-metrics.log.DATE.2, then roll to ... .2 again, which wipes second 5

	files, _ := listMetricFiles(dir, "shop-metrics.log")
	if len(files) > 10 {
		t.Fatalf("%d files", len(files))
	}
	s, _ := NewDefaultMetricSearcher(dir, "shop-metrics.log")
	for sec := uint64(1); sec <= 5; sec++ {
		got, err := s.FindByTimeAndResource((auditT0Sec+sec)*1000, (auditT0Sec+sec)*1000, "s")
		if err != nil {
			t.Fatal(err)
		}
		if len(got) != 1 || got[0].Timestamp != (auditT0Sec+sec)*1000 || got[0].PassQps != sec {
			where := "is in no file any more"
			for _, f := range files {
				if b, _ := os.ReadFile(f); strings.HasPrefix(string(b), fmt.Sprintf("%d|", (auditT0Sec+sec)*1000)) {
					where = "is still in " + filepath.Base(f)
				}
			}
			t.Errorf("log \"shop\" (limit 10 files, has %d): the item of second %d was accepted and %s, but a query for that "+
				"second returns %s. No file of \"shop\" was dropped for the file limit, so the property demands that the item is "+
				"read back. Files before \"eshop\" started: %s; files now: %s",
				len(files), sec, where, auditDump(got), before, auditLs(t, dir))
		}
	}
}
