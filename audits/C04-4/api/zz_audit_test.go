package api

import (
	"testing"

	"github.com/alibaba/sentinel-golang/core/base"
	"github.com/alibaba/sentinel-golang/core/isolation"
	"github.com/alibaba/sentinel-golang/core/stat"
)

// Property C04: for a resource with a concurrency isolation rule of threshold N a request of batch b is
// admitted if and only if in-flight + b <= N - "over all thresholds". N = 0 is a threshold of the uint32
// range: no request with b >= 1 satisfies 0 + b <= 0, so the resource is closed.
// The library accepts the load (LoadRules returns true and no error), silently drops the rule as
// "invalid" and admits every request on the resource without any limit.
func TestAuditZeroThresholdRuleLeavesResourceUnlimited(t *testing.T) {
	if err := InitDefault(); err != nil {
		t.Fatal(err)
	}
	const res = "audit4-zero-threshold"
	defer isolation.ClearRules()

	loaded, err := isolation.LoadRules([]*isolation.Rule{
		{Resource: res, MetricType: isolation.Concurrency, Threshold: 0},
	})
	if err != nil || !loaded {
		// a refused load would at least tell the caller that the rule is not in force
		t.Skipf("the load was refused (loaded=%v err=%v): the caller knows the rule is not in force", loaded, err)
	}

	var admitted []*base.SentinelEntry
	defer func() {
		for _, e := range admitted {
			e.Exit()
		}
	}()
	for i := 0; i < 10; i++ {
		e, b := Entry(res, WithBatchCount(1))
		if b == nil {
			admitted = append(admitted, e)
		}
	}
	if len(admitted) != 0 {
		inForce := isolation.GetRulesOfResource(res)
		t.Errorf("isolation rule with threshold 0 was loaded without error (loaded=%v, err=%v), rules in force for the resource: %d; "+
			"%d of 10 requests of batch 1 were admitted and are in flight together (gauge=%d). "+
			"The property demands: admitted iff in-flight + b <= N, here 0 + 1 <= 0 is false for every request, in-flight must never exceed N = 0",
			loaded, err, len(inForce), len(admitted), stat.GetResourceNode(res).CurrentConcurrency())
	}
	// The same through a reload while a rule is in force: lowering the threshold of a full resource
	// from 3 to 0 removes the limit altogether instead of closing the resource.
	const res2 = "audit4-lowered-to-zero"
	if _, err := isolation.LoadRulesOfResource(res2, []*isolation.Rule{
		{Resource: res2, MetricType: isolation.Concurrency, Threshold: 3},
	}); err != nil {
		t.Fatal(err)
	}
	for i := 0; i < 3; i++ {
		e, b := Entry(res2)
		if b != nil {
			t.Fatalf("request %d under threshold 3 was rejected", i+1)
		}
		admitted = append(admitted, e)
	}
	if e, b := Entry(res2); b == nil {
		admitted = append(admitted, e)
		t.Fatalf("fourth request under threshold 3 was admitted")
	}
	loaded, err = isolation.LoadRulesOfResource(res2, []*isolation.Rule{
		{Resource: res2, MetricType: isolation.Concurrency, Threshold: 0},
	})
	if err == nil && loaded {
		extra := 0
		for i := 0; i < 10; i++ {
			if e, b := Entry(res2); b == nil {
				admitted = append(admitted, e)
				extra++
			}
		}
		if extra != 0 {
			t.Errorf("threshold of a full resource (3 in flight) lowered from 3 to 0 by a reload that reported loaded=%v err=%v: "+
				"%d further requests were admitted, %d in flight now (gauge=%d), rules in force: %d. "+
				"The property demands that no request is admitted while in-flight + b > N (3 + 1 > 0)",
				loaded, err, extra, 3+extra, stat.GetResourceNode(res2).CurrentConcurrency(), len(isolation.GetRulesOfResource(res2)))
		}
	}
}
