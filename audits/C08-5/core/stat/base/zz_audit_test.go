package base

import (
	"sync/atomic"
	"testing"
	"time"

	"github.com/alibaba/sentinel-golang/core/base"
	"github.com/alibaba/sentinel-golang/util"
)

// auditGateClock is a millisecond clock that never goes back. A test can arm it so that the NEXT
// caller is held right after it has taken its reading: that is a goroutine that is descheduled between
// reading the clock and using the value, which is all AddCount / UpdateConcurrency do with the clock
// (bucket_leap_array.go: addCountWithTime(util.CurrentTimeMillis(), ...)).
type auditGateClock struct {
	ms      uint64
	armed   int32
	taken   chan uint64   // the held caller reports the reading it took
	release chan struct{} // the held caller goes on when this is closed
}

func (c *auditGateClock) CurrentTimeMillis() uint64 {
	v := atomic.LoadUint64(&c.ms)
	if atomic.CompareAndSwapInt32(&c.armed, 1, 0) {
		c.taken <- v
		<-c.release
	}
	return v
}
func (c *auditGateClock) CurrentTimeNano() uint64 { return atomic.LoadUint64(&c.ms) * 1000000 }
func (c *auditGateClock) Now() time.Time          { return time.Unix(0, int64(c.CurrentTimeNano())) }
func (c *auditGateClock) Sleep(time.Duration)     {}
func (c *auditGateClock) set(ms uint64)           { atomic.StoreUint64(&c.ms, ms) }

// Finding 1: an array of ONE bucket books a recorder that is one bucket behind into the NEW bucket.
//
// Two recorders on a 1 x 1000 ms array, the clock never goes back:
//
//	A: AddCount(pass, 1), UpdateConcurrency(7) - read the clock at 999 (bucket [0, 1000)), then are
//	   descheduled before they look up their bucket
//	B: AddCount(pass, 1) at 1000 - recycles the only slot for [1000, 2000) and counts 1
//	A: go on with their reading of 999
//
// A read at 1000 looks at the window [1000, 2000). The events that fall into it are B's alone:
// pass = 1, peak concurrency = 0. An array of more than one bucket refuses A's events in exactly this
// position ("Provided time ... is already behind old.BucketStart"): they are older than every window
// the array can still answer for. The single-bucket array has a branch of its own for it
// (leap_array.go, currentBucketOfTime: `if la.sampleCount == 1 { return old, nil }`) that hands A the
// NEW bucket, and the events of 999 are counted in [1000, 2000).
func TestAudit_SingleBucketArrayCountsLateRecorderInNextWindow(t *testing.T) {
	// control: 2 x 1000 ms, A reads 999, B records at 2000 (same slot, one cycle on): A is refused
	cSum, cQPS, cCount, cVPeak, cAPeak := auditLateRecorder(t, 2, 2000, 999, 2000)
	if cSum != 1 || cCount != 1 || cQPS != 0.5 || cVPeak != 0 || cAPeak != 0 {
		t.Fatalf("control, array 2x2000 ms, late recorder at 999 overtaken by one at 2000, read at 2000 (window [1000,3000)): "+
			"sum=%d qps=%v count=%d peaks=%d/%d, want 1, 0.5, 1, 0/0", cSum, cQPS, cCount, cVPeak, cAPeak)
	}

	// 1 x 1000 ms, A reads 999, B records at 1000 (same slot, one cycle on): A lands in B's bucket
	const wantPass, wantPeak = int64(1), int32(0)
	gotViewSum, gotViewQPS, gotArrCount, gotViewPeak, gotArrPeak := auditLateRecorder(t, 1, 1000, 999, 1000)
	if gotViewSum != wantPass || gotArrCount != wantPass || gotViewQPS != float64(wantPass) ||
		gotViewPeak != wantPeak || gotArrPeak != wantPeak {
		t.Errorf("array 1x1000 ms, read at t=1000 (window [1000,2000)): one pass was recorded with the clock at 1000, "+
			"one pass and a concurrency sample of 7 with the clock at 999 by recorders that were overtaken (the clock never went back). "+
			"view.GetSum(pass)=%d view.GetQPS(pass)=%v arr.Count(pass)=%d view.MaxConcurrency=%d arr.MaxConcurrency=%d; "+
			"the property demands pass=%d, QPS=%d, peak concurrency=%d: nothing older than the window is ever counted "+
			"(the events of t=999 belong to [0,1000), which the window ending at the current bucket does not contain; an array of "+
			"2 or more buckets drops them in this position - control above -, the single-bucket array books them into the new bucket)",
			gotViewSum, gotViewQPS, gotArrCount, gotViewPeak, gotArrPeak, wantPass, wantPass, wantPeak)
	}
}

// auditLateRecorder: on an array of n buckets over intervalMs (and a view of the same geometry), a pass
// and a concurrency sample of 7 are recorded by goroutines that read the clock at tA and are held; a pass
// is recorded at tB; the held ones go on; everything is read at tB.
func auditLateRecorder(t *testing.T, n, intervalMs uint32, tA, tB uint64) (viewSum int64, viewQPS float64, arrCount int64, viewPeak, arrPeak int32) {
	clk := &auditGateClock{taken: make(chan uint64), release: make(chan struct{})}
	util.SetClock(clk)
	defer util.SetClock(util.NewRealClock())

	clk.set(0)
	arr := NewBucketLeapArray(n, intervalMs)
	view, err := NewSlidingWindowMetric(n, intervalMs, arr)
	if err != nil {
		t.Fatalf("a view of the geometry of the array tiles it exactly and must be constructible: %v", err)
	}

	// recorders A1 (a pass) and A2 (a concurrency sample of 7): readings taken at tA, then held
	clk.set(tA)
	doneA := make(chan struct{}, 2)
	for _, record := range []func(){
		func() { arr.AddCount(base.MetricEventPass, 1) },
		func() { arr.UpdateConcurrency(7) },
	} {
		record := record
		atomic.StoreInt32(&clk.armed, 1)
		go func() {
			record()
			doneA <- struct{}{}
		}()
		if got := <-clk.taken; got != tA {
			t.Fatalf("test setup: a recorder of group A read %d, want %d", got, tA)
		}
	}

	// recorder B at tB
	clk.set(tB)
	arr.AddCount(base.MetricEventPass, 1)

	// A1 and A2 go on with their readings of tA
	close(clk.release)
	<-doneA
	<-doneA

	return view.GetSum(base.MetricEventPass), view.GetQPS(base.MetricEventPass), arr.Count(base.MetricEventPass),
		view.MaxConcurrency(), arr.MaxConcurrency()
}
