package system_test

import (
	"sync"
	"sync/atomic"
	"testing"
	"time"

	sentinel "github.com/alibaba/sentinel-golang/api"
	"github.com/alibaba/sentinel-golang/core/base"
	"github.com/alibaba/sentinel-golang/core/stat"
	"github.com/alibaba/sentinel-golang/core/system"
	"github.com/alibaba/sentinel-golang/core/system_metric"
	"github.com/alibaba/sentinel-golang/util"
)

// auditClock is a util.Clock whose time is set by the test. An optional hook runs on every reading of
// the millisecond clock, BEFORE the value is returned: the library reads the clock at the start of
// every statistic update, so the hook is a deterministic stand-in for "another goroutine gets to run
// here" / "time passes between these two readings".
type auditClock struct {
	ms   int64
	mu   sync.Mutex
	hook func()
}

func (c *auditClock) set(ms uint64) { atomic.StoreInt64(&c.ms, int64(ms)) }
func (c *auditClock) setHook(h func()) {
	c.mu.Lock()
	c.hook = h
	c.mu.Unlock()
}
func (c *auditClock) Now() time.Time        { return time.Unix(0, atomic.LoadInt64(&c.ms)*int64(time.Millisecond)) }
func (c *auditClock) Sleep(d time.Duration) {}
func (c *auditClock) CurrentTimeNano() uint64 {
	return uint64(atomic.LoadInt64(&c.ms)) * uint64(time.Millisecond)
}
func (c *auditClock) CurrentTimeMillis() uint64 {
	c.mu.Lock()
	h := c.hook
	c.mu.Unlock()
	if h != nil {
		h()
	}
	return uint64(atomic.LoadInt64(&c.ms))
}

var auditEpoch uint64

// auditStart installs a test clock at a fresh point of time: a multiple of the 10s statistic cycle that
// lies after everything an earlier test wrote into the (global) inbound node, so every test starts
// with an empty inbound window and the clock never steps backwards.
func auditStart(t *testing.T) (*auditClock, uint64) {
	if auditEpoch == 0 {
		now := uint64(time.Now().UnixNano()) / uint64(time.Millisecond)
		auditEpoch = now - now%10000 + 60000
	} else {
		auditEpoch += 1000000
	}
	c := &auditClock{}
	c.set(auditEpoch)
	util.SetClock(c)
	_ = system.ClearRules()
	system_metric.SetSystemLoad(system_metric.NotRetrievedLoadValue)
	if n := stat.InboundNode().CurrentConcurrency(); n != 0 {
		t.Fatalf("test set-up: inbound in-flight count is %d, want 0", n)
	}
	t.Cleanup(func() {
		c.setHook(nil)
		_ = system.ClearRules()
		system_metric.SetSystemLoad(system_metric.NotRetrievedLoadValue)
		util.SetClock(util.NewRealClock())
	})
	return c, auditEpoch
}

func auditInbound(t *testing.T, res string) *base.SentinelEntry {
	e, b := sentinel.Entry(res, sentinel.WithTrafficType(base.Inbound))
	if b != nil {
		t.Fatalf("test set-up: inbound entry of %q blocked unexpectedly: %v", res, b)
	}
	return e
}

// Finding 1. A completion is published to the inbound node in two steps (response time first, then the
// completion count). A request that is checked in between sees an average response time that no
// set of completed requests ever had.
func TestAuditAvgRTRuleSeesHalfRecordedCompletion(t *testing.T) {
	clk, t0 := auditStart(t)
	if _, err := system.LoadRules([]*system.Rule{{MetricType: system.AvgRT, TriggerCount: 15, Strategy: system.NoAdaptive}}); err != nil {
		t.Fatal(err)
	}

	// request A: 10ms
	a := auditInbound(t, "audit-avgrt")
	clk.set(t0 + 10)
	a.Exit()
	// request B: 10ms as well
	b := auditInbound(t, "audit-avgrt")
	clk.set(t0 + 20)

	// While B exits, another goroutine performs an inbound entry at every point where the exiting
	// goroutine reads the clock (it is parked meanwhile). Every inbound request that has completed,
	// or is completing, took exactly 10ms: whichever of them are counted, the average is 10 < 15.
	type blocked struct {
		msg      string
		snapshot interface{}
	}
	var (
		inProbe  int32
		probes   int
		passed   []*base.SentinelEntry
		rejected []blocked
	)
	clk.setHook(func() {
		if !atomic.CompareAndSwapInt32(&inProbe, 0, 1) {
			return // clock readings of the probe itself
		}
		done := make(chan struct{})
		go func() {
			defer close(done)
			probes++
			e, be := sentinel.Entry("audit-avgrt-probe", sentinel.WithTrafficType(base.Inbound))
			if be != nil {
				rejected = append(rejected, blocked{be.BlockMsg(), be.TriggeredValue()})
			} else {
				passed = append(passed, e)
			}
		}()
		<-done
		atomic.StoreInt32(&inProbe, 0)
	})
	b.Exit()
	clk.setHook(nil)
	for _, e := range passed {
		e.Exit()
	}

	if probes == 0 {
		t.Fatalf("test set-up: no probe ran during Exit")
	}
	for _, r := range rejected {
		t.Errorf("an inbound request entering while another one (10ms) was being completed was rejected: %q, "+
			"average RT seen = %v. The only completed inbound requests took 10ms and 10ms, so the inbound average "+
			"response time is 10ms at every moment and never reaches the trigger 15; the property demands that the "+
			"request passes (no loaded rule is violated). The completing request's 10ms were already added to the RT "+
			"sum but its completion was not yet counted: (10+10)/1", r.msg, r.snapshot)
	}
}

// Finding 2. The BBR capacity is computed from two separate readings of the clock. When a bucket
// boundary lies between them, the minimum RT of one window is multiplied by the peak completion rate of
// the next one; the product is the capacity of neither moment.
func TestAuditBbrCapacityMixesTwoWindows(t *testing.T) {
	clk, s := auditStart(t)
	rule := &system.Rule{MetricType: system.Load, TriggerCount: 1, Strategy: system.BBR}
	if _, err := system.LoadRules([]*system.Rule{rule}); err != nil {
		t.Fatal(err)
	}

	// three inbound requests stay in flight
	var inflight []*base.SentinelEntry
	for i := 0; i < 3; i++ {
		inflight = append(inflight, auditInbound(t, "audit-bbr"))
	}
	defer func() {
		for _, e := range inflight {
			e.Exit()
		}
	}()
	// bucket A = [s, s+500): 200 completions of 10ms
	var es []*base.SentinelEntry
	for i := 0; i < 200; i++ {
		es = append(es, auditInbound(t, "audit-bbr"))
	}
	clk.set(s + 10)
	for _, e := range es {
		e.Exit()
	}
	// bucket B = [s+500, s+1000): 5 completions of 400ms
	es = es[:0]
	clk.set(s + 200)
	for i := 0; i < 5; i++ {
		es = append(es, auditInbound(t, "audit-bbr"))
	}
	clk.set(s + 600)
	for _, e := range es {
		e.Exit()
	}
	if n := stat.InboundNode().CurrentConcurrency(); n != 3 {
		t.Fatalf("test set-up: inbound in-flight = %d, want 3", n)
	}

	system_metric.SetSystemLoad(5) // above the trigger: the BBR capacity decides

	check := func() *base.TokenResult {
		rw := base.NewResourceWrapper("audit-bbr", base.ResTypeCommon, base.Inbound)
		return system.DefaultAdaptiveSlot.Check(&base.EntryContext{Resource: rw, RuleCheckResult: base.NewTokenResultPass()})
	}

	// the moment s+999: window {A,B}: min RT 10ms, peak 200 per 500ms = 400/s, capacity 4 >= 3 in flight
	clk.set(s + 999)
	minRtBefore, peakBefore := stat.InboundNode().MinRT(), stat.InboundNode().GetMaxAvg(base.MetricEventComplete)
	if r := check(); r != nil && r.IsBlocked() {
		t.Fatalf("test set-up: blocked at s+999 (minRT %v, peak %v/s)", minRtBefore, peakBefore)
	}

	// a check that starts at s+999; the clock reaches s+1000 before its second reading
	reads := 0
	clk.setHook(func() {
		reads++
		if reads == 2 {
			clk.set(s + 1000)
		}
	})
	torn := check()
	clk.setHook(nil)

	// the moment s+1000: window {B,C}: min RT 400ms, peak 5 per 500ms = 10/s, capacity 4 >= 3 in flight
	clk.set(s + 1000)
	minRtAfter, peakAfter := stat.InboundNode().MinRT(), stat.InboundNode().GetMaxAvg(base.MetricEventComplete)
	if r := check(); r != nil && r.IsBlocked() {
		t.Fatalf("test set-up: blocked at s+1000 (minRT %v, peak %v/s)", minRtAfter, peakAfter)
	}

	if torn != nil && torn.IsBlocked() {
		t.Errorf("an inbound request checked while the clock went from s+999 to s+1000 was rejected (%q) with 3 requests in flight. "+
			"At s+999 the estimated capacity is %v/s * %vms = %v, at s+1000 it is %v/s * %vms = %v: at neither moment does the in-flight "+
			"count 3 exceed the capacity, so the property demands a pass. The check multiplied the minimum RT of the first window (%vms) "+
			"by the peak completion rate of the second (%v/s) = %v",
			torn.BlockError().BlockMsg(),
			peakBefore, minRtBefore, peakBefore*minRtBefore/1000, peakAfter, minRtAfter, peakAfter*minRtAfter/1000,
			minRtBefore, peakAfter, peakAfter*minRtBefore/1000)
	}
}

// Finding 3. The minimum response time of the inbound node can never be larger than 60000ms (the value
// an empty bucket starts from), so with responses slower than a minute the BBR capacity is too small.
func TestAuditBbrMinRtCappedAtOneMinute(t *testing.T) {
	clk, s := auditStart(t)
	rule := &system.Rule{MetricType: system.Load, TriggerCount: 1, Strategy: system.BBR}
	if _, err := system.LoadRules([]*system.Rule{rule}); err != nil {
		t.Fatal(err)
	}
	// 151 long-running inbound requests (streams, long polls ...) start at s
	var inflight []*base.SentinelEntry
	for i := 0; i < 151; i++ {
		inflight = append(inflight, auditInbound(t, "audit-slow"))
	}
	defer func() {
		for _, e := range inflight {
			e.Exit()
		}
	}()
	// 100s later the first one completes: the only completion of the window, RT = 100000ms
	clk.set(s + 100000)
	inflight[0].Exit()
	inflight = inflight[1:]
	clk.set(s + 100010)

	system_metric.SetSystemLoad(5) // above the trigger
	node := stat.InboundNode()
	inFlight, peak, minRt := node.CurrentConcurrency(), node.GetMaxAvg(base.MetricEventComplete), node.MinRT()

	e, be := sentinel.Entry("audit-slow", sentinel.WithTrafficType(base.Inbound))
	if be != nil {
		t.Errorf("inbound request rejected (%q) with %d requests in flight. The only completed inbound request took 100000ms and the "+
			"peak completion rate is %v/s, so the estimated capacity (peak completion rate times minimum response time) is %v >= %d "+
			"and the property demands a pass. The library used a minimum response time of %vms (average RT it reports: %vms), "+
			"i.e. a capacity of %v",
			be.BlockMsg(), inFlight, peak, peak*100000/1000, inFlight, minRt, node.AvgRT(), peak*minRt/1000)
	} else {
		inflight = append(inflight, e)
	}
}
