package kratos

import (
	"context"
	"testing"

	kerrors "github.com/go-kratos/kratos/v2/errors"
	"github.com/go-kratos/kratos/v2/selector"
	"github.com/go-kratos/kratos/v2/transport"

	sentinel "github.com/alibaba/sentinel-golang/api"
	"github.com/alibaba/sentinel-golang/core/base"
	"github.com/alibaba/sentinel-golang/core/stat"
)

type auditHeader map[string][]string

func (h auditHeader) Get(k string) string {
	if v := h[k]; len(v) > 0 {
		return v[0]
	}
	return ""
}
func (h auditHeader) Set(k, v string) { h[k] = []string{v} }
func (h auditHeader) Add(k, v string) { h[k] = append(h[k], v) }
func (h auditHeader) Keys() []string {
	ks := make([]string, 0, len(h))
	for k := range h {
		ks = append(ks, k)
	}
	return ks
}
func (h auditHeader) Values(k string) []string { return h[k] }

// auditTransport is what the kratos http / grpc client puts into the context of a call.
type auditTransport struct{ endpoint, operation string }

func (t auditTransport) Kind() transport.Kind            { return transport.KindHTTP }
func (t auditTransport) Endpoint() string                { return t.endpoint }
func (t auditTransport) Operation() string               { return t.operation }
func (t auditTransport) RequestHeader() transport.Header { return auditHeader{} }
func (t auditTransport) ReplyHeader() transport.Header   { return auditHeader{} }

// The kratos clients (transport/http client.invoke, transport/grpc unaryClientInterceptor) attach an empty
// selector.Peer to the context, run the middleware chain, and the node is chosen INSIDE the wrapped handler
// (client.do -> selector.Select sets peer.Node). A call that fails before a node is chosen - the registry has
// no instance of the service, every instance was filtered out, the deadline passed while waiting for one -
// comes back with an error and peer.Node == nil.
func TestAuditKratosOutlierErrorWithoutNode(t *testing.T) {
	if err := sentinel.InitDefault(); err != nil {
		t.Fatal(err)
	}
	const svc = "audit-svc"
	mw := SentinelClientMiddleware(WithEnableOutlier(func(context.Context) bool { return true }))
	calls := 0
	callErr := kerrors.ServiceUnavailable("NODE_NOT_FOUND", "no available node") // what client.do returns
	h := mw(func(ctx context.Context, req interface{}) (interface{}, error) {
		calls++
		return nil, callErr
	})

	ctx := transport.NewClientContext(context.Background(), auditTransport{endpoint: "discovery:///" + svc, operation: "/audit.Svc/Hello"})
	var p selector.Peer
	ctx = selector.NewPeerContext(ctx, &p)
	_, err := h(ctx, "req")
	if err == nil || calls != 1 {
		t.Fatalf("the wrapped handler should have run once and failed: calls=%d err=%v", calls, err)
	}

	node := stat.GetResourceNode(svc)
	if node == nil {
		t.Fatal("no statistics for the resource: no entry was asked for")
	}
	complete := node.GetSum(base.MetricEventComplete)
	errCount := node.GetSum(base.MetricEventError)
	if complete != 1 {
		t.Fatalf("want one completed entry, got %d", complete)
	}
	if errCount != 1 {
		t.Fatalf("kratos client middleware, outlier mode: the wrapped handler of an admitted request failed with %q (no node had been chosen yet), "+
			"but its entry completed WITHOUT an error (resource %q: complete=%d error=%d); the property demands that handler errors are traced on the entry on every path",
			err, svc, complete, errCount)
	}
}
