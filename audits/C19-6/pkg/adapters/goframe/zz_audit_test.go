package goframe

import (
	"errors"
	"net/http"
	"net/http/httptest"
	"sync"
	"testing"

	sentinel "github.com/alibaba/sentinel-golang/api"
	"github.com/alibaba/sentinel-golang/core/base"
	"github.com/gogf/gf/v2/frame/g"
	"github.com/gogf/gf/v2/net/ghttp"
)

// auditRecorder is a statistic slot that writes down, per resource, how Sentinel saw each entry end.
type auditRecorder struct {
	mu     sync.Mutex
	events map[string][]string
	errs   map[string][]error
}

var (
	auditRec  = &auditRecorder{events: map[string][]string{}, errs: map[string][]error{}}
	auditOnce sync.Once
)

func (r *auditRecorder) Order() uint32 { return 100000 }
func (r *auditRecorder) OnEntryPassed(ctx *base.EntryContext) {
	r.add(ctx.Resource.Name(), "passed", nil, false)
}
func (r *auditRecorder) OnEntryBlocked(ctx *base.EntryContext, _ *base.BlockError) {
	r.add(ctx.Resource.Name(), "blocked", nil, false)
}
func (r *auditRecorder) OnCompleted(ctx *base.EntryContext) {
	r.add(ctx.Resource.Name(), "completed", ctx.Err(), true)
}
func (r *auditRecorder) add(res, ev string, err error, completion bool) {
	r.mu.Lock()
	defer r.mu.Unlock()
	r.events[res] = append(r.events[res], ev)
	if completion {
		r.errs[res] = append(r.errs[res], err)
	}
}
func (r *auditRecorder) get(res string) ([]string, []error) {
	r.mu.Lock()
	defer r.mu.Unlock()
	return append([]string(nil), r.events[res]...), append([]error(nil), r.errs[res]...)
}

func auditInit(t *testing.T) {
	auditOnce.Do(func() {
		if err := sentinel.InitDefault(); err != nil {
			t.Fatalf("init: %v", err)
		}
		sentinel.GlobalSlotChain().AddStatSlot(auditRec)
	})
}

// goframe keeps ONE error per request (Request.SetError / GetError). A middleware registered before
// SentinelMiddleware notes a soft failure there and lets the request go on; the route handler succeeds.
func TestAuditGoframeTracesErrorSetBeforeTheEntry(t *testing.T) {
	auditInit(t)
	const res = "GET:/audit/soft"
	soft := errors.New("soft failure noted by an earlier middleware")
	handlerRuns := 0

	s := g.Server("audit-soft")
	s.SetRouteOverWrite(true)
	s.SetDumpRouterMap(false)
	s.Group("/", func(group *ghttp.RouterGroup) {
		group.Middleware(func(r *ghttp.Request) {
			r.SetError(soft) // before the entry exists
			r.Middleware.Next()
		})
		group.Middleware(SentinelMiddleware())
		group.ALL("/audit/soft", func(r *ghttp.Request) {
			handlerRuns++
			r.Response.Write("ok") // the handler succeeds
		})
	})
	s.Start()
	w := httptest.NewRecorder()
	s.ServeHTTP(w, httptest.NewRequest(http.MethodGet, "/audit/soft", nil))

	ev, errs := auditRec.get(res)
	if handlerRuns != 1 || w.Code != http.StatusOK || w.Body.String() != "ok" {
		t.Fatalf("setup: the handler should have run once and answered 200 ok: runs=%d code=%d body=%q", handlerRuns, w.Code, w.Body.String())
	}
	if len(errs) != 1 {
		t.Fatalf("want exactly one completed entry on %q, got events %v", res, ev)
	}
	if errs[0] != nil {
		t.Fatalf("goframe adapter: the handler of an admitted request SUCCEEDED (200 %q) but its entry completed WITH the error %q, "+
			"which an earlier middleware had stored on the request before the entry existed (events %v); "+
			"the property has handler errors traced on the entry - a request whose handler did not fail must complete without one",
			w.Body.String(), errs[0], ev)
	}
}
