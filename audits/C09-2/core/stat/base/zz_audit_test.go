package base

import (
	"fmt"
	"math/rand"
	"runtime"
	"sync/atomic"
	"testing"
	"time"

	"github.com/alibaba/sentinel-golang/core/base"
	"github.com/alibaba/sentinel-golang/util"
)

// auditClock is a util.Clock whose millisecond value is set directly by the test.
type auditClock struct {
	ms uint64
}

func (c *auditClock) set(ms uint64)             { atomic.StoreUint64(&c.ms, ms) }
func (c *auditClock) Now() time.Time            { return time.Unix(0, int64(c.CurrentTimeNano())) }
func (c *auditClock) Sleep(d time.Duration)     {}
func (c *auditClock) CurrentTimeMillis() uint64 { return atomic.LoadUint64(&c.ms) }
func (c *auditClock) CurrentTimeNano() uint64   { return atomic.LoadUint64(&c.ms) * 1000000 }

// Finding 1: the timestamped read SlidingWindowMetric.SecondMetricsOnCondition (the read the metric log
// is built from) decides which second a bucket belongs to from one load of the bucket's start, and reads
// the bucket's counters afterwards without looking at the start again. A recorder that rolls the bucket
// over in between has its amount - recorded with a timestamp of the NEW cycle - reported in the item
// that carries the timestamp of the OLD cycle.
//
// Set-up: 2 buckets of 500ms (interval 1000ms). Bucket number k is [500k, 500k+500); the only amount ever
// recorded with a timestamp inside bucket k is k itself ("pass"). The second s = [1000s, 1000s+1000)
// consists of the buckets 2s and 2s+1, so whatever part of them a reader catches, a pass total reported
// for second s can only be 0, 2s, 2s+1 or 4s+1.
//
// Each round is exactly "one reader, one recorder, one operation each, around a bucket boundary":
//
//	the clock stands at 500k+499, the last millisecond of bucket k; buckets k-1 and k are in the window;
//	reader:   one call of SecondMetricsOnCondition
//	recorder: (concurrently) the clock ticks by 1ms to 500(k+1) and the recorder records k+1 at once.
//	          It is not stalled at all, and it rolls the slot of bucket k-1 over into bucket k+1.
//
// The rounds are repeated (with a random delay of the recorder of a few dozen nanoseconds) until the
// recorder's roll-over lands between the reader's look at the start and its look at the counters.
func TestAudit_SecondMetricsReportsAmountOfNextCycleUnderOldTimestamp(t *testing.T) {
	if runtime.GOMAXPROCS(0) < 2 {
		t.Skip("needs two processors")
	}
	clk := &auditClock{}
	clk.set(1000)
	util.SetClock(clk)
	defer util.SetClock(util.NewRealClock())

	const (
		sampleCount  = 2
		intervalInMs = 1000
		bucketLen    = intervalInMs / sampleCount
	)
	arr := NewBucketLeapArray(sampleCount, intervalInMs)
	view, err := NewSlidingWindowMetric(sampleCount, intervalInMs, arr)
	if err != nil {
		t.Fatal(err)
	}
	// bucket number 2 = [1000, 1500)
	arr.AddCount(base.MetricEventPass, 2)

	var round, done, stop uint64
	defer atomic.StoreUint64(&stop, 1)
	go func() { // the recorder
		r := rand.New(rand.NewSource(1))
		for k := uint64(2); ; k++ {
			for atomic.LoadUint64(&round) != k {
				if atomic.LoadUint64(&stop) != 0 {
					return
				}
			}
			for n := r.Intn(300); n > 0; n-- {
				atomic.LoadUint64(&stop)
			}
			clk.set((k + 1) * bucketLen)                   // the clock ticks from 500k+499 to 500(k+1) ...
			arr.AddCount(base.MetricEventPass, int64(k+1)) // ... and the recorder records at that very timestamp
			atomic.StoreUint64(&done, k)
		}
	}()

	all := func(uint64) bool { return true }
	begin := time.Now()
	k := uint64(2)
	for ; time.Since(begin) < 30*time.Second; k++ {
		clk.set(k*bucketLen + bucketLen - 1) // nobody is active: plain passing of time
		atomic.StoreUint64(&round, k)
		items := view.SecondMetricsOnCondition(all)
		for atomic.LoadUint64(&done) != k {
		}
		for _, item := range items {
			s := item.Timestamp / 1000
			p := item.PassQps
			if item.Timestamp%1000 == 0 && (p == 0 || p == 2*s || p == 2*s+1 || p == 4*s+1) {
				continue
			}
			t.Fatal(fmt.Sprintf(
				"round %d: reader called SecondMetricsOnCondition at t=%d (buckets number %d and %d in the window) while the clock ticked to %d "+
					"and a recorder recorded pass=%d there. The item with timestamp %d (second %d = buckets number %d and %d) reports pass=%d, "+
					"but the only amounts ever recorded with a timestamp in that second are %d and %d, so its total can only be 0, %d, %d or %d: "+
					"the amount %d recorded at t=%d was credited to a bucket its timestamp does not select and is reported for a second in which "+
					"it was never recorded. The property demands that with more than one bucket an amount is only ever credited to the bucket its "+
					"timestamp selects, and that reported totals never exceed what has been recorded (nothing invented), under any interleaving "+
					"in which no recorder is stalled for longer than one bucket length (this one is not stalled at all)",
				k, k*bucketLen+bucketLen-1, k-1, k, (k+1)*bucketLen, k+1,
				item.Timestamp, s, 2*s, 2*s+1, p, 2*s, 2*s+1, 2*s, 2*s+1, 4*s+1, k+1, (k+1)*bucketLen))
		}
	}
	t.Logf("no mislabelled item in %d rounds", k-2)
}
