package base

// Audit of the sliding-window property (fifth pass): NO new violation was found, so this file holds no
// failing test. What it holds is the probe that was used to look for one; it PASSES on the code as it is.
// See AUDIT.md at the root of the worktree.

import (
	"math/rand"
	"sync"
	"sync/atomic"
	"testing"

	"github.com/alibaba/sentinel-golang/core/base"
)

// auditPhaseStress runs `phases` rounds. In round p every worker stamps its operations with a time of
// bucket p or bucket p+1 (so a recorder is never behind the newest caller by more than one bucket length,
// and with n >= 2 no recorder overlaps the recycling of its own slot). Recorders add to Pass, readers use
// both read paths (the refreshing CountWithTime and the non-refreshing view). Checked:
//   - a reader never reports more than has been recorded so far (all n);
//   - at the end of every round the window ending with bucket p+1 is exactly the recorded total of its
//     buckets (n >= 2), through both read paths.
func auditPhaseStress(t *testing.T, n uint32, bl uint32, workers int, phases int) {
	interval := n * bl
	base0 := uint64(1700000000000)
	base0 -= base0 % uint64(interval)
	arr := &BucketLeapArray{
		data: LeapArray{
			bucketLengthInMs: bl,
			sampleCount:      n,
			intervalInMs:     interval,
		},
		dataType: "MetricBucket",
	}
	arr.data.array = NewAtomicBucketWrapArrayWithTime(int(n), bl, base0, arr)
	view, err := NewSlidingWindowMetric(n, interval, arr)
	if err != nil {
		t.Fatal(err)
	}
	totals := make([]int64, phases+3)
	var recorded int64
	for p := 0; p < phases; p++ {
		p := p
		var wg sync.WaitGroup
		for w := 0; w < workers; w++ {
			wg.Add(1)
			go func(seed int64) {
				defer wg.Done()
				r := rand.New(rand.NewSource(seed))
				for k := 0; k < 3; k++ {
					b := p + r.Intn(2)
					ts := base0 + uint64(b)*uint64(bl) + uint64(r.Intn(int(bl)))
					if r.Intn(3) < 2 {
						amt := int64(1 + r.Intn(5))
						atomic.AddInt64(&recorded, amt)
						atomic.AddInt64(&totals[b], amt)
						arr.addCountWithTime(ts, base.MetricEventPass, amt)
						continue
					}
					var got int64
					if r.Intn(2) == 0 {
						got = arr.CountWithTime(ts, base.MetricEventPass)
					} else {
						got = view.getSumWithTime(ts, base.MetricEventPass)
					}
					if rec := atomic.LoadInt64(&recorded); got > rec {
						t.Errorf("n=%d round %d: a reader at %d reported %d, more than the %d recorded so far; the property demands that totals never exceed what has been recorded", n, p, ts, got, rec)
					}
				}
			}(int64(p*1000 + w))
		}
		wg.Wait()
		if n > 1 {
			ts := base0 + uint64(p+1)*uint64(bl)
			var want int64
			for b := p + 1; b >= 0 && b > p+1-int(n); b-- {
				want += totals[b]
			}
			got := view.getSumWithTime(ts, base.MetricEventPass)
			got2 := arr.CountWithTime(ts, base.MetricEventPass)
			if got != want || got2 != want {
				t.Fatalf("n=%d round %d: window ending with bucket %d reports %d (view) / %d (CountWithTime), recorded %d; with no recorder overlapping the rollover of its own bucket the property demands the exact total", n, p, p+1, got, got2, want)
			}
		}
	}
}

// TestAuditProbe_PhaseStress_NoFinding passes: it documents the absence of a finding.
func TestAuditProbe_PhaseStress_NoFinding(t *testing.T) {
	for _, n := range []uint32{1, 2, 3, 5} {
		auditPhaseStress(t, n, 10, 8, 3000)
	}
}
