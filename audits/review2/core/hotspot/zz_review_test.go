package hotspot

import (
	"math"
	"sync"
	"testing"
	"time"

	"github.com/alibaba/sentinel-golang/core/base"
	"github.com/alibaba/sentinel-golang/util"
)

// reviewClock is a clock that only moves when the test moves it.
type reviewClock struct {
	mu  sync.Mutex
	now time.Time
}

func (c *reviewClock) Now() time.Time {
	c.mu.Lock()
	defer c.mu.Unlock()
	return c.now
}
func (c *reviewClock) Sleep(d time.Duration) { c.advance(d) }
func (c *reviewClock) CurrentTimeMillis() uint64 {
	return uint64(c.Now().UnixNano()) / uint64(time.Millisecond)
}
func (c *reviewClock) CurrentTimeNano() uint64 { return uint64(c.Now().UnixNano()) }
func (c *reviewClock) advance(d time.Duration) {
	c.mu.Lock()
	c.now = c.now.Add(d)
	c.mu.Unlock()
}

func reviewThrottlingController(t *testing.T, r *Rule) TrafficShapingController {
	t.Helper()
	if err := IsValidRule(r); err != nil {
		t.Fatalf("the rule of the test must be valid: %v", err)
	}
	tc := tcGenFuncMap[Throttling](r, nil)
	if tc == nil {
		t.Fatal("no throttling controller was generated")
	}
	return tc
}

// Finding 1 (commit 43b151b, together with the premise of 0b40520).
//
// The pacing interval of a hot-parameter throttling rule is now batch*duration/threshold rounded UP to a whole
// millisecond, and the pass times are kept in whole milliseconds. The rate that is really enforced is therefore
// 1000/ceil(1000*duration/threshold) per second: lower than the threshold by up to a factor of two below 1000
// per second, and never more than 1000 per second whatever the threshold says:
//
//	threshold  700 / s  -> interval 2 ms -> 500 / s
//	threshold  999 / s  -> interval 2 ms -> 500 / s
//	threshold 5000 / s  -> interval 1 ms -> 1000 / s
//	MaxInt64 ("do not limit this value", the usage 0b40520 was made for) -> interval 1 ms -> 1000 / s
//
// Before the commit the interval was rounded down and these inputs were admitted; the commit turns an
// under-enforcement into the rejection (or delay) of traffic that is below the configured threshold.
func TestReviewHotspotThrottlingRejectsTrafficBelowItsThreshold(t *testing.T) {
	clock := &reviewClock{now: time.Unix(1700000000, 0)}
	prev := util.CurrentClock()
	util.SetClock(clock)
	defer util.SetClock(prev)

	admitted := func(r *base.TokenResult) bool {
		return r == nil || r.Status() == base.ResultStatusPass || r.Status() == base.ResultStatusShouldWait
	}

	// (a) 3000 requests per second (three in every millisecond) under a threshold of 5000 per second.
	tc := reviewThrottlingController(t, &Rule{
		Resource:          "review-throttling",
		MetricType:        QPS,
		ControlBehavior:   Throttling,
		ParamIndex:        0,
		Threshold:         5000,
		DurationInSec:     1,
		MaxQueueingTimeMs: 0,
	})
	passed, blocked := 0, 0
	for ms := 0; ms < 1000; ms++ {
		for i := 0; i < 3; i++ {
			if admitted(tc.PerformChecking("uid-1", 1)) {
				passed++
			} else {
				blocked++
			}
		}
		clock.advance(time.Millisecond)
	}
	if blocked != 0 {
		t.Errorf("threshold 5000 per second, 3000 requests for one value in one second (three per millisecond): "+
			"%d passed and %d were blocked; the traffic is below the threshold and should pass "+
			"(the pacing interval 0.2 ms is rounded up to 1 ms, which enforces 1000 per second)", passed, blocked)
	}

	// (c) a threshold below 1000 per second, with queueing: 667 requests per second (two every three
	// milliseconds) for three seconds under a threshold of 700 per second and a queueing time of 20 ms.
	clock.advance(time.Second)
	tc = reviewThrottlingController(t, &Rule{
		Resource:          "review-throttling-700",
		MetricType:        QPS,
		ControlBehavior:   Throttling,
		ParamIndex:        0,
		Threshold:         700,
		DurationInSec:     1,
		MaxQueueingTimeMs: 20,
	})
	passed, blocked = 0, 0
	for step := 0; step < 1000; step++ { // 1000 steps of 3 ms
		for i := 0; i < 2; i++ {
			if admitted(tc.PerformChecking("uid-2", 1)) {
				passed++
			} else {
				blocked++
			}
		}
		clock.advance(3 * time.Millisecond)
	}
	if blocked > 20 { // (some slack for the start of the run)
		t.Errorf("threshold 700 per second with 20 ms queueing, 2000 requests for one value in three seconds (667 per second): "+
			"%d were admitted (passed or queued) and %d were blocked; the traffic is below the threshold and should be admitted "+
			"(the pacing interval 1.43 ms is rounded up to 2 ms, which enforces 500 per second)", passed, blocked)
	}

	// (b) a value that is exempted from the limit with a practically unlimited specific threshold
	// (IsValidRule accepts it, commit 0b40520 repaired exactly this usage for the reject behaviour).
	tc = reviewThrottlingController(t, &Rule{
		Resource:          "review-throttling-vip",
		MetricType:        QPS,
		ControlBehavior:   Throttling,
		ParamIndex:        0,
		Threshold:         10,
		DurationInSec:     1,
		MaxQueueingTimeMs: 0,
		SpecificItems:     map[interface{}]int64{"vip": math.MaxInt64},
	})
	clock.advance(time.Second)
	passed, blocked = 0, 0
	for i := 0; i < 3; i++ { // three requests inside the same millisecond
		r := tc.PerformChecking("vip", 1)
		if r == nil || r.Status() == base.ResultStatusPass {
			passed++
		} else {
			blocked++
		}
	}
	if blocked != 0 {
		t.Errorf("specific threshold MaxInt64 per second for \"vip\", three requests in the same millisecond: "+
			"%d passed and %d were blocked; a practically unlimited value should never be blocked "+
			"(its pacing interval of ~1e-16 ms is rounded up to 1 ms, which enforces 1000 per second)", passed, blocked)
	}
}
