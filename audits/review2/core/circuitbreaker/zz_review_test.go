package circuitbreaker

import (
	"errors"
	"testing"
)

// Finding 2 (commit 9ca3394).
//
// The commit promises that GetRules / GetRulesOfResource no longer report a rule for which no breaker
// exists, but it only looks whether a generator is REGISTERED for the rule's strategy. A rule whose
// generator declines to build a breaker (it returns an error - the documented way for a generator
// registered with SetCircuitBreakerGenerator to reject a rule) is skipped by
// BuildResourceCircuitBreaker and still stored in the reported list: the getters show a rule that is
// enforced by nothing, which is exactly what the commit set out to remove.
func TestReviewGettersReportRuleWhoseGeneratorBuiltNoBreaker(t *testing.T) {
	const custom Strategy = 101
	if err := SetCircuitBreakerGenerator(custom, func(r *Rule, reuseStat interface{}) (CircuitBreaker, error) {
		return nil, errors.New("this generator cannot build a breaker for the rule")
	}); err != nil {
		t.Fatal(err)
	}
	defer func() {
		_ = RemoveCircuitBreakerGenerator(custom)
		_ = ClearRules()
	}()

	const res = "review-cb-generator-fails"
	ok := &Rule{Resource: res, Strategy: ErrorCount, RetryTimeoutMs: 1000, MinRequestAmount: 1, StatIntervalMs: 1000, Threshold: 1}
	bad := &Rule{Resource: res, Strategy: custom, RetryTimeoutMs: 1000, MinRequestAmount: 1, StatIntervalMs: 1000, Threshold: 1}

	// whole-list load
	if _, err := LoadRules([]*Rule{ok, bad}); err != nil {
		t.Fatal(err)
	}
	if nb, nr := len(getBreakersOfResource(res)), len(GetRulesOfResource(res)); nb != nr {
		t.Errorf("LoadRules: %d breaker(s) exist for the resource but GetRulesOfResource reports %d rules "+
			"(GetRules: %d); the rule whose generator built no breaker should not be reported", nb, nr, len(GetRules()))
	}

	// per-resource load
	_ = ClearRules()
	if _, err := LoadRulesOfResource(res, []*Rule{ok, bad}); err != nil {
		t.Fatal(err)
	}
	if nb, nr := len(getBreakersOfResource(res)), len(GetRulesOfResource(res)); nb != nr {
		t.Errorf("LoadRulesOfResource: %d breaker(s) exist for the resource but GetRulesOfResource reports %d rules; "+
			"the rule whose generator built no breaker should not be reported", nb, nr)
	}
}
