package hotspot

import (
	"math"
	"sync"
	"sync/atomic"
	"testing"
	"time"

	"github.com/alibaba/sentinel-golang/core/base"
	"github.com/alibaba/sentinel-golang/core/hotspot/cache"
	"github.com/alibaba/sentinel-golang/util"
)

// auditPausingCache is the library's own LRU counter cache; the only thing it adds is that the
// FIRST AddIfAbsent call is held at its entry (before it touches the cache) until the test lets it go.
// This is nothing but a deterministic way to produce the goroutine schedule "caller 1 is preempted
// between its two cache operations", which the Go scheduler is free to produce at any time.
type auditPausingCache struct {
	cache.ConcurrentCounterCache
	calls   int32
	reached chan struct{}
	release chan struct{}
}

func (c *auditPausingCache) AddIfAbsent(key interface{}, value *int64) *int64 {
	if atomic.AddInt32(&c.calls, 1) == 1 {
		close(c.reached)
		<-c.release
	}
	return c.ConcurrentCounterCache.AddIfAbsent(key, value)
}

func auditIsBlocked(r *base.TokenResult) bool {
	return r != nil && r.Status() == base.ResultStatusBlocked
}

// Finding 1: two concurrent first requests for a fresh value. The first caller registers the value's
// refill time, and is preempted before it registers the value's tokens. The second caller finds the
// time but no tokens, takes that for an eviction and starts the value over with a FULL budget; the
// first caller's AddIfAbsent then finds the counter of the second one, ignores it and passes
// without its tokens ever being deducted.
func TestAuditRejectFirstRequestOfAValueIsNeverCountedWhenASecondCallerArrivesInBetween(t *testing.T) {
	clock := util.NewMockClock()
	util.SetClock(clock)
	defer util.SetClock(util.NewRealClock())
	defer func() { _ = ClearRules() }()

	const res = "audit-c05-first-seen-race"
	rule := &Rule{
		Resource:          res,
		MetricType:        QPS,
		ControlBehavior:   Reject,
		ParamIndex:        0,
		Threshold:         1,
		BurstCount:        0,
		DurationInSec:     1,
		ParamsMaxCapacity: 100, // far more than the one live value: nothing is ever evicted
	}
	if _, err := LoadRules([]*Rule{rule}); err != nil {
		t.Fatal(err)
	}
	tcs := getTrafficControllersFor(res)
	if len(tcs) != 1 {
		t.Fatalf("expected one controller, got %d", len(tcs))
	}
	tc := tcs[0]
	pc := &auditPausingCache{
		ConcurrentCounterCache: tc.BoundMetric().RuleTokenCounter,
		reached:                make(chan struct{}),
		release:                make(chan struct{}),
	}
	tc.BoundMetric().RuleTokenCounter = pc

	var first *base.TokenResult
	var wg sync.WaitGroup
	wg.Add(1)
	go func() {
		defer wg.Done()
		first = tc.PerformChecking("v", 1) // caller 1: stops between "time registered" and "tokens registered"
	}()
	select {
	case <-pc.reached:
	case <-time.After(5 * time.Second):
		t.Fatal("caller 1 never reached the token cache")
	}
	second := tc.PerformChecking("v", 1) // caller 2 runs to completion in the meantime
	close(pc.release)
	wg.Wait()

	admitted := 0
	if !auditIsBlocked(first) {
		admitted++
	}
	if !auditIsBlocked(second) {
		admitted++
	}
	// the clock has not moved: zero elapsed durations since the value was first seen
	if admitted > 1 {
		t.Errorf("threshold 1, burst 0, duration 1s, capacity 100, one live value, clock standing still: "+
			"%d requests of 1 token for the value \"v\" were admitted at the same instant "+
			"(caller 1 blocked=%v, caller 2 blocked=%v). The property allows at most threshold+burst = 1 token "+
			"plus threshold per ELAPSED duration (none has elapsed): the first caller's token was never deducted",
			admitted, auditIsBlocked(first), auditIsBlocked(second))
	}

	// The same thing without any instrumentation, left to the Go scheduler (informative: it is a matter
	// of chance, on a 16 core machine about 1 round in 10000 shows it).
	tc.BoundMetric().RuleTokenCounter = pc.ConcurrentCounterCache
	over := 0
	for round := 0; round < 100000; round++ {
		key := round // a fresh value per round, the cache (capacity 100) evicts the old ones
		var n int32
		var wg sync.WaitGroup
		start := make(chan struct{})
		for g := 0; g < 4; g++ {
			wg.Add(1)
			go func() {
				defer wg.Done()
				<-start
				if !auditIsBlocked(tc.PerformChecking(key, 1)) {
					atomic.AddInt32(&n, 1)
				}
			}()
		}
		close(start)
		wg.Wait()
		if n > 1 {
			over++
		}
	}
	t.Logf("uninstrumented: in %d of 100000 rounds (4 simultaneous first requests for a fresh value, mock clock standing still) more than 1 request was admitted", over)
}

// Finding 2: DurationInSec*1000 is computed in int64 without any guard, in both controllers.
func TestAuditDurationInMillisecondsWrapsAround(t *testing.T) {
	clock := util.NewMockClock()
	util.SetClock(clock)
	defer util.SetClock(util.NewRealClock())
	defer func() { _ = ClearRules() }()

	t.Run("throttling/duration=MaxInt64", func(t *testing.T) {
		const res = "audit-c05-duration-wrap-throttling"
		rule := &Rule{
			Resource:          res,
			MetricType:        QPS,
			ControlBehavior:   Throttling,
			ParamIndex:        0,
			Threshold:         1,
			MaxQueueingTimeMs: 0,
			DurationInSec:     math.MaxInt64, // "one request per value, for ever"
			ParamsMaxCapacity: 100,
		}
		if err := IsValidRule(rule); err != nil {
			t.Skipf("rule is refused: %v", err)
		}
		if _, err := LoadRules([]*Rule{rule}); err != nil {
			t.Fatal(err)
		}
		tc := getTrafficControllersFor(res)[0]
		admitted := 0
		for i := 0; i < 10; i++ {
			if r := tc.PerformChecking("v", 1); !auditIsBlocked(r) {
				if r != nil && r.Status() == base.ResultStatusShouldWait {
					t.Fatalf("a wait with MaxQueueingTimeMs 0")
				}
				admitted++
			}
			clock.Sleep(time.Millisecond)
		}
		if admitted > 1 {
			t.Errorf("throttling, threshold 1 per DurationInSec=MaxInt64, no queueing: %d of 10 requests for the value \"v\", "+
				"1 ms apart, were admitted. The property demands admitted requests of a value at least "+
				"batch*duration/threshold (= the whole duration, ~2.9e11 years) apart, i.e. only the first one", admitted)
		}
	})

	t.Run("reject/duration*1000=384 mod 2^64", func(t *testing.T) {
		const res = "audit-c05-duration-wrap-reject"
		const dur = int64(18446744073709552) // *1000 = 2^64 + 384
		rule := &Rule{
			Resource:          res,
			MetricType:        QPS,
			ControlBehavior:   Reject,
			ParamIndex:        0,
			Threshold:         1,
			BurstCount:        0,
			DurationInSec:     dur,
			ParamsMaxCapacity: 100,
		}
		if err := IsValidRule(rule); err != nil {
			t.Skipf("rule is refused: %v", err)
		}
		if _, err := LoadRules([]*Rule{rule}); err != nil {
			t.Fatal(err)
		}
		tc := getTrafficControllersFor(res)[0]
		admitted := 0
		for i := 0; i < 10; i++ {
			if !auditIsBlocked(tc.PerformChecking("v", 1)) {
				admitted++
			}
			clock.Sleep(time.Second)
		}
		if admitted > 1 {
			t.Errorf("reject, threshold 1, burst 0, DurationInSec=%d: %d of 10 requests for the value \"v\", one second apart, "+
				"were admitted. The property allows threshold+burst = 1 token plus 1 per elapsed duration, and "+
				"10 s are 5e-16 durations: only the first one (the rule behaves like one with a window of 384 ms)", dur, admitted)
		}
	})
}

// Finding 3: a reload that changes nothing but ParamsMaxCapacity (threshold, burst, duration, behaviour
// and parameter all stay what they were, and the capacity exceeds the number of live values before
// and after) throws the counters of every value away.
func TestAuditReloadWithAnotherCapacityForgetsWhatTheValuesHaveConsumed(t *testing.T) {
	clock := util.NewMockClock()
	util.SetClock(clock)
	defer util.SetClock(util.NewRealClock())
	defer func() { _ = ClearRules() }()

	t.Run("reject", func(t *testing.T) {
		const res = "audit-c05-capacity-reload-reject"
		mk := func(capacity int64) *Rule {
			return &Rule{ID: "r1", Resource: res, MetricType: QPS, ControlBehavior: Reject, ParamIndex: 0,
				Threshold: 1, BurstCount: 0, DurationInSec: 10, ParamsMaxCapacity: capacity}
		}
		if _, err := LoadRules([]*Rule{mk(100)}); err != nil {
			t.Fatal(err)
		}
		check := func() bool {
			return !auditIsBlocked(getTrafficControllersFor(res)[0].PerformChecking("v", 1))
		}
		admitted := 0
		if check() {
			admitted++
		}
		if check() {
			t.Fatalf("second request inside the window admitted without any reload")
		}
		if _, err := LoadRules([]*Rule{mk(200)}); err != nil {
			t.Fatal(err)
		}
		if check() {
			admitted++
		}
		if admitted > 1 {
			t.Errorf("reject, threshold 1, burst 0, duration 10s, one live value, clock standing still: after a reload that only "+
				"raised ParamsMaxCapacity from 100 to 200 the value \"v\" was admitted again: %d tokens at one instant. "+
				"The property allows threshold+burst = 1 plus threshold per elapsed duration (none) whatever the capacity, "+
				"as long as it is not exceeded", admitted)
		}
	})

	t.Run("throttling", func(t *testing.T) {
		const res = "audit-c05-capacity-reload-throttling"
		mk := func(capacity int64) *Rule {
			return &Rule{ID: "r1", Resource: res, MetricType: QPS, ControlBehavior: Throttling, ParamIndex: 0,
				Threshold: 1, MaxQueueingTimeMs: 0, DurationInSec: 10, ParamsMaxCapacity: capacity}
		}
		if _, err := LoadRules([]*Rule{mk(100)}); err != nil {
			t.Fatal(err)
		}
		check := func() bool {
			return !auditIsBlocked(getTrafficControllersFor(res)[0].PerformChecking("v", 1))
		}
		if !check() {
			t.Fatalf("first request blocked")
		}
		clock.Sleep(time.Millisecond)
		if check() {
			t.Fatalf("second request 1 ms later admitted without any reload")
		}
		if _, err := LoadRules([]*Rule{mk(200)}); err != nil {
			t.Fatal(err)
		}
		if check() {
			t.Errorf("throttling, threshold 1 per 10s, no queueing, one live value: after a reload that only raised " +
				"ParamsMaxCapacity from 100 to 200 a request for \"v\" was admitted 1 ms after the previous admitted one; " +
				"the property demands admitted requests of a value at least batch*duration/threshold = 10 s apart")
		}
	})
}
