package api

import (
	"errors"
	"testing"

	"github.com/alibaba/sentinel-golang/core/base"
	"github.com/alibaba/sentinel-golang/core/isolation"
	"github.com/alibaba/sentinel-golang/core/stat"
)

func auditLoadIsolation(t *testing.T, res string, threshold uint32) {
	t.Helper()
	if _, err := isolation.LoadRulesOfResource(res, []*isolation.Rule{
		{Resource: res, MetricType: isolation.Concurrency, Threshold: threshold},
	}); err != nil {
		t.Fatalf("cannot load the isolation rule: %v", err)
	}
	if got := isolation.GetRulesOfResource(res); len(got) != 1 || got[0].Threshold != threshold {
		t.Fatalf("precondition: rule not in force: %v", got)
	}
}

func auditGauge(res string) int32 {
	n := stat.GetResourceNode(res)
	if n == nil {
		return 0
	}
	return n.CurrentConcurrency()
}

// Finding 1: an Exit whose exit handler panics is survived by the library (the panic is recovered and
// logged, the entry counts as exited, its context is recycled, a second Exit is a no-op), but the
// completion is never reported to the statistic slots: the capacity of that entry is lost for good.
func TestAuditIsolationCapacityLostWhenExitHandlerPanics(t *testing.T) {
	const res = "audit-c04-exit-handler-panic"
	auditLoadIsolation(t, res, 1)
	defer isolation.ClearRulesOfResource(res)

	// control: an exit handler that merely FAILS does not cost the capacity
	e0, b0 := Entry(res)
	if b0 != nil {
		t.Fatalf("precondition: first request rejected: %v", b0)
	}
	e0.WhenExit(func(*base.SentinelEntry, *base.EntryContext) error { return errors.New("handler failed") })
	e0.Exit()
	if g := auditGauge(res); g != 0 {
		t.Fatalf("precondition: gauge %d after the control entry exited", g)
	}

	e1, b1 := Entry(res)
	if b1 != nil {
		t.Fatalf("precondition: request rejected with 0 in flight under threshold 1: %v", b1)
	}
	e1.WhenExit(func(*base.SentinelEntry, *base.EntryContext) error { panic("exit handler panics") })
	func() {
		defer func() {
			if r := recover(); r != nil {
				t.Fatalf("Exit let the handler's panic through: %v", r)
			}
		}()
		e1.Exit()
	}()
	e1.Exit() // exiting again changes nothing: the entry IS exited

	gauge := auditGauge(res)
	e2, b2 := Entry(res)
	if b2 != nil {
		t.Errorf("threshold 1, the only admitted entry has exited (0 admitted-but-not-yet-exited entries), yet a "+
			"request of batch 1 is REJECTED (%v); the resource's concurrency gauge still reads %d. The property demands "+
			"admission iff in-flight+b <= N (0+1 <= 1) and that capacity freed by an Exit is immediately reusable; "+
			"here the Exit (which recovered from its handler's panic) never released the capacity, and no later call can",
			b2, gauge)
		return
	}
	e2.Exit()
}

// Finding 2: a request of batch 0 is checked as costing 0 but occupies one unit of capacity like every
// other entry, so it is admitted on a full resource and the in-flight count goes to N+1 (sequentially,
// no concurrency needed).
func TestAuditIsolationBatchZeroAdmittedOnFullResource(t *testing.T) {
	const res = "audit-c04-batch-zero"
	const n = 2
	auditLoadIsolation(t, res, n)
	defer isolation.ClearRulesOfResource(res)

	var open []*base.SentinelEntry
	defer func() {
		for _, e := range open {
			e.Exit()
		}
	}()
	for i := 0; i < n; i++ {
		e, b := Entry(res)
		if b != nil {
			t.Fatalf("precondition: request %d rejected under threshold %d: %v", i+1, n, b)
		}
		open = append(open, e)
	}
	if _, b := Entry(res); b == nil {
		t.Fatalf("precondition: a batch-1 request was admitted on the full resource")
	}

	e, b := Entry(res, WithBatchCount(0))
	if b == nil {
		open = append(open, e)
		t.Errorf("threshold %d with %d entries in flight: a request of batch 0 was ADMITTED, now %d entries are "+
			"admitted-but-not-yet-exited (gauge %d). The property demands that in-flight entries never exceed N "+
			"(sequential callers, k=1, so no overshoot is allowed)", n, n, len(open), auditGauge(res))
	}
}

// Finding 3: the rule manager remembers the caller's *Rule objects to detect identical reloads. A rule
// object that was rejected as invalid (threshold 0), is then corrected in place and loaded again is
// reported as "unchanged" and never comes into force: the resource has a rule of threshold 1 according
// to the load, but is not limited at all.
func TestAuditIsolationCorrectedRuleObjectNeverComesIntoForce(t *testing.T) {
	const res = "audit-c04-corrected-rule"
	defer isolation.ClearRules()

	r := &isolation.Rule{Resource: res, MetricType: isolation.Concurrency, Threshold: 0}
	if _, err := isolation.LoadRules([]*isolation.Rule{r}); err != nil {
		t.Fatalf("load of the invalid rule: %v", err)
	}
	if got := isolation.GetRulesOfResource(res); len(got) != 0 {
		t.Fatalf("precondition: a zero-threshold rule is in force: %v", got)
	}

	r.Threshold = 1 // the application corrects its rule and loads it again
	loaded, err := isolation.LoadRules([]*isolation.Rule{r})
	if err != nil {
		t.Fatalf("load of the corrected rule: %v", err)
	}

	var open []*base.SentinelEntry
	defer func() {
		for _, e := range open {
			e.Exit()
		}
	}()
	for i := 0; i < 3; i++ {
		e, b := Entry(res)
		if b != nil {
			break
		}
		open = append(open, e)
	}
	if len(open) > 1 {
		t.Errorf("LoadRules([{%s Concurrency threshold=1}]) returned (loaded=%v, err=nil), rules in force for the "+
			"resource afterwards: %v; %d requests of batch 1 were admitted one after the other without any Exit "+
			"(gauge %d). The property demands that with a rule of threshold 1 a request is admitted iff in-flight+1 <= 1",
			res, loaded, isolation.GetRulesOfResource(res), len(open), auditGauge(res))
	}
}
