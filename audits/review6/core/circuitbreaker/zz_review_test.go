package circuitbreaker

import (
	"testing"

	"github.com/alibaba/sentinel-golang/core/base"
)

// reviewBreaker is a breaker of a user-defined strategy, the way SetCircuitBreakerGenerator asks for it:
// it implements the exported CircuitBreaker interface (circuitBreakerBase is not exported and cannot be
// embedded outside the package).
type reviewBreaker struct {
	rule *Rule
	open bool
}

func (b *reviewBreaker) BoundRule() *Rule                { return b.rule }
func (b *reviewBreaker) BoundStat() interface{}          { return nil }
func (b *reviewBreaker) TryPass(*base.EntryContext) bool { return !b.open }
func (b *reviewBreaker) OnRequestComplete(uint64, error) {}
func (b *reviewBreaker) CurrentState() State {
	if b.open {
		return Open
	}
	return Closed
}

// Finding 3 (6a1e8ff): the ID a kept breaker goes by after a rename is recorded INSIDE the breaker
// (circuitBreakerBase.loadedId), which only the three built-in strategies have. A breaker of a strategy
// registered with SetCircuitBreakerGenerator is still matched by the stale BoundRule().Id: the defect the
// commit describes - a new rule loaded under the old name takes over what belongs to the renamed rule,
// and the renamed, unchanged rule is rebuilt from scratch and loses its state - is still there for them.
func TestReviewRenamedRuleOfCustomStrategyLosesItsBreakerToTheRuleLoadedUnderItsOldId(t *testing.T) {
	const custom = Strategy(4711)

	run := func(t *testing.T, res string, strategy Strategy) (kept bool) {
		defer func() { _ = ClearRulesOfResource(res) }()
		rule := func(id string, threshold float64) *Rule {
			return &Rule{Id: id, Resource: res, Strategy: strategy, RetryTimeoutMs: 60000,
				MinRequestAmount: 1, StatIntervalMs: 10000, Threshold: threshold}
		}
		if _, err := LoadRulesOfResource(res, []*Rule{rule("orders", 1)}); err != nil {
			t.Fatal(err)
		}
		first := getBreakersOfResource(res)
		if len(first) != 1 {
			t.Fatalf("precondition: %d breakers after the first load", len(first))
		}
		// nothing but the Id changes: the breaker stays
		if _, err := LoadRulesOfResource(res, []*Rule{rule("orders-v1", 1)}); err != nil {
			t.Fatal(err)
		}
		if cbs := getBreakersOfResource(res); len(cbs) != 1 || cbs[0] != first[0] {
			t.Fatalf("precondition: the breaker was not kept over the rename")
		}
		// a later load brings a new rule under the old name; "orders-v1" is unchanged
		if _, err := LoadRulesOfResource(res, []*Rule{rule("orders-v1", 1), rule("orders", 5)}); err != nil {
			t.Fatal(err)
		}
		cbs := getBreakersOfResource(res)
		if len(cbs) != 2 {
			t.Fatalf("precondition: %d breakers after the third load", len(cbs))
		}
		return cbs[0] == first[0]
	}

	if !run(t, "review-renamed-builtin", ErrorCount) {
		t.Fatalf("precondition: with a built-in strategy the unchanged rule orders-v1 keeps its breaker (what 6a1e8ff repaired)")
	}

	if err := SetCircuitBreakerGenerator(custom, func(r *Rule, _ interface{}) (CircuitBreaker, error) {
		return &reviewBreaker{rule: r}, nil
	}); err != nil {
		t.Fatal(err)
	}
	defer func() { _ = RemoveCircuitBreakerGenerator(custom) }()

	if !run(t, "review-renamed-custom", custom) {
		t.Errorf("rule orders-v1 (renamed from orders two loads ago, unchanged since) was given a NEW breaker when another rule " +
			"was loaded under the name orders: its breaker state (an open breaker closes) is lost; with the built-in strategies " +
			"the same three loads keep the breaker, as an unchanged rule must. The loaded Id is kept inside circuitBreakerBase only, " +
			"breakers of user-defined strategies are still matched by the stale BoundRule().Id")
	}
}
