package flow

import (
	"testing"

	"github.com/alibaba/sentinel-golang/core/base"
	"github.com/alibaba/sentinel-golang/core/stat"
)

// Finding 1 (6a1e8ff + 2eba7b8): a controller kept for a renamed rule goes by the new ID in the
// matching and in the getters, but the rule it names as the cause of a block still carries the old
// ID. Since 6a1e8ff a NEW rule may be loaded under that old ID next to it (it no longer takes the
// renamed rule's controller): the block is then attributed to a rule that did not cause it.
func TestReviewBlockOfRenamedRuleNamesTheRuleLoadedUnderItsOldID(t *testing.T) {
	const res = "review-renamed-rule-block"
	defer func() { _ = ClearRulesOfResource(res) }()

	closed := func(id string) *Rule {
		return &Rule{ID: id, Resource: res, TokenCalculateStrategy: Direct, ControlBehavior: Reject,
			Threshold: 0, StatIntervalInMs: 1000}
	}
	if _, err := LoadRulesOfResource(res, []*Rule{closed("closed")}); err != nil {
		t.Fatal(err)
	}
	// "closed" is renamed to "maintenance" (nothing else changes): the controller stays ...
	if _, err := LoadRulesOfResource(res, []*Rule{closed("maintenance")}); err != nil {
		t.Fatal(err)
	}
	// ... and in a later load a new, generous rule comes in under the name "closed".
	generous := &Rule{ID: "closed", Resource: res, TokenCalculateStrategy: Direct, ControlBehavior: Reject,
		Threshold: 1000000, StatIntervalInMs: 1000}
	if _, err := LoadRulesOfResource(res, []*Rule{closed("maintenance"), generous}); err != nil {
		t.Fatal(err)
	}
	for _, r := range GetRulesOfResource(res) {
		if (r.ID == "maintenance") != (r.Threshold == 0) {
			t.Fatalf("precondition: GetRulesOfResource reports %s with threshold %v", r.ID, r.Threshold)
		}
	}

	ctx := &base.EntryContext{
		Resource: base.NewResourceWrapper(res, base.ResTypeCommon, base.Inbound),
		StatNode: stat.GetOrCreateResourceNode(res, base.ResTypeCommon),
		Input:    &base.SentinelInput{BatchCount: 1},
	}
	result := (&Slot{}).Check(ctx)
	if result == nil || !result.IsBlocked() || result.BlockError() == nil {
		t.Fatalf("precondition: the request must be blocked by the rule with threshold 0, got %v", result)
	}
	cause, ok := result.BlockError().TriggeredRule().(*Rule)
	if !ok || cause == nil {
		t.Fatalf("precondition: the block names no flow rule: %v", result.BlockError().TriggeredRule())
	}
	if cause.ID != "maintenance" {
		t.Errorf("the request was blocked by the rule loaded as %q (threshold 0), but the block error names rule %q as its cause - "+
			"that is the ID of the other rule in force (threshold 1000000), which blocked nothing; "+
			"the rule a block reports must be the one GetRules reports: ID %q", "maintenance", cause.ID, "maintenance")
	}
}
