package gin

import (
	"errors"
	"net/http"
	"net/http/httptest"
	"testing"

	sentinel "github.com/alibaba/sentinel-golang/api"
	"github.com/alibaba/sentinel-golang/core/base"
	"github.com/alibaba/sentinel-golang/core/stat"
	"github.com/gin-gonic/gin"
)

// Finding 2 (edc1e34): the adapter traces c.Errors.Last() after c.Next(). c.Errors is the list of the
// whole request: it also holds what a middleware registered BEFORE the sentinel middleware attached
// before the entry existed. Such an error is traced on the entry although everything the entry
// guards - the handlers after it - succeeded.
func TestReviewGinErrorAttachedBeforeTheEntryIsTracedOnIt(t *testing.T) {
	if err := sentinel.InitDefault(); err != nil {
		t.Fatal(err)
	}
	gin.SetMode(gin.TestMode)
	router := gin.New()
	// e.g. a middleware that records a soft failure (an optional header that does not parse, a cache
	// that is down) for the error-logging middleware around it, and lets the request go on
	router.Use(func(c *gin.Context) {
		_ = c.Error(errors.New("optional tracing header malformed, ignored"))
		c.Next()
	})
	router.Use(SentinelMiddleware())
	router.GET("/review-healthy", func(c *gin.Context) {
		c.String(http.StatusOK, "fine")
	})

	const n = 5
	for i := 0; i < n; i++ {
		w := httptest.NewRecorder()
		router.ServeHTTP(w, httptest.NewRequest(http.MethodGet, "/review-healthy", nil))
		if w.Code != http.StatusOK {
			t.Fatalf("precondition: request %d answered %d", i, w.Code)
		}
	}

	node := stat.GetResourceNode("GET:/review-healthy")
	if node == nil {
		t.Fatal("precondition: no statistic node for the route")
	}
	if got := node.GetSum(base.MetricEventError); got != 0 {
		t.Errorf("%d requests went through a handler that succeeded (200, no error attached after the entry was created), "+
			"but the resource counts %d errors: the adapter traced the error an EARLIER middleware had put into c.Errors "+
			"before the entry existed; only errors attached during c.Next() belong to the entry "+
			"(an error-count or error-ratio breaker on this route opens on a healthy handler)", n, got)
	}
}
