package flow

import (
	"sync/atomic"
	"testing"
	"time"

	"github.com/alibaba/sentinel-golang/core/base"
	"github.com/alibaba/sentinel-golang/core/stat"
	"github.com/alibaba/sentinel-golang/util"
)

// auditClock is a virtual nanosecond clock: Sleep advances it, nothing else does.
type auditClock struct {
	ns int64
}

func (c *auditClock) Now() time.Time            { return time.Unix(0, atomic.LoadInt64(&c.ns)) }
func (c *auditClock) CurrentTimeNano() uint64   { return uint64(atomic.LoadInt64(&c.ns)) }
func (c *auditClock) CurrentTimeMillis() uint64 { return uint64(atomic.LoadInt64(&c.ns)) / 1e6 }
func (c *auditClock) set(ns int64)              { atomic.StoreInt64(&c.ns, ns) }
func (c *auditClock) Sleep(d time.Duration) {
	if d > 0 {
		atomic.AddInt64(&c.ns, int64(d))
	}
}

func auditUseClock(t *testing.T, startNs int64) *auditClock {
	old := util.CurrentClock()
	c := &auditClock{ns: startNs}
	util.SetClock(c)
	t.Cleanup(func() {
		util.SetClock(old)
		_ = ClearRules()
	})
	return c
}

func auditCtx(res string, withNode bool) *base.EntryContext {
	ctx := &base.EntryContext{
		Resource: base.NewResourceWrapper(res, base.ResTypeCommon, base.Inbound),
		Input:    &base.SentinelInput{BatchCount: 1},
	}
	if withNode {
		ctx.StatNode = stat.GetOrCreateResourceNode(res, base.ResTypeCommon)
	}
	return ctx
}

func auditOutcome(r *base.TokenResult) string {
	if r == nil || r.IsPass() {
		return "admitted"
	}
	if r.IsBlocked() {
		s := "REJECTED"
		if be := r.BlockError(); be != nil {
			s += " (" + be.BlockMsg() + ")"
			if rule, ok := be.TriggeredRule().(*Rule); ok && rule != nil {
				s += " by rule " + rule.ID
			}
		}
		return s
	}
	return r.String()
}

const auditT0 = int64(1700000000) * int64(time.Second)

// Finding 1: two throttling rules on one resource. A request that the SECOND rule rejects has already
// taken a pass time in the FIRST rule; that pass time belongs to no admitted request, yet the next
// request is rejected by the first rule because of it.
func TestAudit_PassTimeTakenByRequestThatLaterRuleRejects(t *testing.T) {
	clk := auditUseClock(t, auditT0)
	res := "audit-c10-two-rules"
	fast := &Rule{ID: "fast-10-per-s", Resource: res, TokenCalculateStrategy: Direct, ControlBehavior: Throttling,
		Threshold: 10, StatIntervalInMs: 1000, MaxQueueingTimeMs: 0}
	slow := &Rule{ID: "slow-1-per-s", Resource: res, TokenCalculateStrategy: Direct, ControlBehavior: Throttling,
		Threshold: 1, StatIntervalInMs: 1000, MaxQueueingTimeMs: 0}
	if _, err := LoadRules([]*Rule{fast, slow}); err != nil {
		t.Fatal(err)
	}
	slot := &Slot{}
	ctx := auditCtx(res, true)

	// Control: the same three arrivals with the rules listed in the opposite order - the third is admitted.
	{
		res2 := res + "-reversed"
		f2, s2 := *fast, *slow
		f2.Resource, s2.Resource = res2, res2
		if _, err := LoadRulesOfResource(res2, []*Rule{&s2, &f2}); err != nil {
			t.Fatal(err)
		}
		ctx2 := auditCtx(res2, true)
		a := slot.Check(ctx2)
		clk.set(auditT0 + 950*int64(time.Millisecond))
		b := slot.Check(ctx2)
		clk.set(auditT0 + 1000*int64(time.Millisecond))
		c := slot.Check(ctx2)
		if !(a == nil || a.IsPass()) || b == nil || !b.IsBlocked() || !(c == nil || c.IsPass()) {
			t.Fatalf("control (slow rule listed first) expected admitted/rejected/admitted, got %s / %s / %s",
				auditOutcome(a), auditOutcome(b), auditOutcome(c))
		}
		clk.set(auditT0)
	}

	// t = 0 ms: the first request, admitted by both rules (pass time 0).
	if r := slot.Check(ctx); !(r == nil || r.IsPass()) {
		t.Fatalf("setup: first request should be admitted, got %s", auditOutcome(r))
	}
	// t = 950 ms: the slow rule (1/s, no queueing) must reject; the fast rule is checked first and admits.
	clk.set(auditT0 + 950*int64(time.Millisecond))
	r2 := slot.Check(ctx)
	if r2 == nil || !r2.IsBlocked() || r2.BlockError().TriggeredRule() != slow {
		t.Fatalf("setup: request at 950 ms should be rejected by the slow rule, got %s", auditOutcome(r2))
	}
	// t = 1000 ms: the only admitted request so far passed at 0 ms. Both spacings (100 ms and 1000 ms)
	// are honoured by admitting this request at once, with no wait.
	clk.set(auditT0 + 1000*int64(time.Millisecond))
	r3 := slot.Check(ctx)
	if r3 != nil && r3.IsBlocked() {
		t.Errorf("rules on one resource: throttling 10/s and throttling 1/s, both without queueing. Admitted so far: "+
			"one request, pass time 0 ms. The request at 950 ms was rejected (by the 1/s rule). The request at 1000 ms "+
			"was %s. The property demands that a request is rejected only when honouring the spacing to the previous "+
			"admitted pass time (0 ms; 1000 ms >= 100 ms and >= 1000 ms) would need a wait above the limit: it needs no "+
			"wait at all. The 10/s rule counts the pass time 950 ms that it gave to the REJECTED request "+
			"(with the rules listed in the opposite order the same request is admitted).", auditOutcome(r3))
	}
}

// Finding 2: a fresh controller behaves as if a request had passed at virtual time 0. In virtual
// nanosecond time that starts at (or near) zero the very first request is queued or rejected.
func TestAudit_FirstRequestEverIsRejectedNearVirtualTimeZero(t *testing.T) {
	clk := auditUseClock(t, 0)
	res := "audit-c10-first-request"
	rule := &Rule{ID: "one-per-s", Resource: res, TokenCalculateStrategy: Direct, ControlBehavior: Throttling,
		Threshold: 1, StatIntervalInMs: 1000, MaxQueueingTimeMs: 0}
	if _, err := LoadRules([]*Rule{rule}); err != nil {
		t.Fatal(err)
	}
	slot := &Slot{}
	ctx := auditCtx(res, true)

	clk.set(5 * int64(time.Millisecond))
	r := slot.Check(ctx)
	if r != nil && r.IsBlocked() {
		t.Errorf("throttling 1/s without queueing, freshly loaded, virtual clock at 5 ms: the FIRST request the rule "+
			"ever sees was %s. No pass time was handed out before it, so there is no spacing to honour; the property "+
			"demands that a request is rejected only when honouring the spacing would exceed the queueing limit.", auditOutcome(r))
	}

	// the same with a queueing limit: the first request is asked to wait for a predecessor that never existed
	_ = ClearRules()
	rule2 := &Rule{ID: "one-per-s-queue", Resource: res, TokenCalculateStrategy: Direct, ControlBehavior: Throttling,
		Threshold: 1, StatIntervalInMs: 1000, MaxQueueingTimeMs: 2000}
	if _, err := LoadRules([]*Rule{rule2}); err != nil {
		t.Fatal(err)
	}
	clk.set(5 * int64(time.Millisecond))
	tc := getTrafficControllerListFor(res)[0]
	r = canPassCheck(tc, ctx.StatNode, 1)
	if r != nil && r.Status() == base.ResultStatusShouldWait && r.NanosToWait() > 0 {
		t.Errorf("throttling 1/s, queueing limit 2 s, freshly loaded, virtual clock at 5 ms: the FIRST request ever is asked "+
			"to wait %v (pass time 1 s). With no earlier pass time its pass time must be its arrival time.", r.NanosToWait())
	}
}

// Finding 3: the flow slot lets every request through, unpaced, when the entry context carries no
// statistic node (a slot chain without the node-prepare slot) - although throttling never reads the node.
func TestAudit_ThrottlingNotEnforcedWithoutStatNode(t *testing.T) {
	auditUseClock(t, auditT0)
	res := "audit-c10-no-node"
	rule := &Rule{ID: "one-per-s", Resource: res, TokenCalculateStrategy: Direct, ControlBehavior: Throttling,
		Threshold: 1, StatIntervalInMs: 1000, MaxQueueingTimeMs: 0}
	if _, err := LoadRules([]*Rule{rule}); err != nil {
		t.Fatal(err)
	}
	sc := base.NewSlotChain()
	sc.AddRuleCheckSlot(&Slot{}) // a custom chain that consists of the flow slot only

	// Control: the same rule, same instant, context WITH a node - one admission.
	{
		ctxN := auditCtx(res, true)
		n := 0
		for i := 0; i < 5; i++ {
			if r := (&Slot{}).Check(ctxN); r == nil || !r.IsBlocked() {
				n++
			}
		}
		if n != 1 {
			t.Fatalf("control: with a statistic node 1 of 5 should be admitted, got %d", n)
		}
		_ = ClearRules()
		r2 := *rule
		if _, err := LoadRules([]*Rule{&r2}); err != nil { // fresh controller
			t.Fatal(err)
		}
	}

	admitted := 0
	for i := 0; i < 5; i++ {
		ctx := sc.GetPooledContext()
		ctx.Resource = base.NewResourceWrapper(res, base.ResTypeCommon, base.Inbound)
		ctx.Input.BatchCount = 1
		r := sc.Entry(ctx)
		if r == nil || !r.IsBlocked() {
			admitted++
		}
		sc.RefurbishContext(ctx)
	}
	if admitted > 1 {
		t.Errorf("throttling 1/s without queueing, 5 requests at the same virtual instant through a slot chain that holds "+
			"only the flow slot: %d were admitted, all with pass time = now (spacing 0). The property demands consecutive "+
			"pass times at least 1 s apart, i.e. exactly one admission. (With the same rule and a context that carries a "+
			"statistic node - which throttling never reads - only one is admitted.)", admitted)
	}
}
