package circuitbreaker

import (
	"errors"
	"fmt"
	"runtime"
	"strings"
	"sync"
	"sync/atomic"
	"testing"
	"time"

	"github.com/alibaba/sentinel-golang/core/base"
	"github.com/alibaba/sentinel-golang/util"
)

// auditClock is a hand-driven millisecond clock. An optional hook runs inside every
// CurrentTimeMillis call, on the calling goroutine: it gets the value that was read and returns the
// value to hand to the caller; meanwhile it may move the clock or let another goroutine run, i.e.
// place a clock tick (or the steps of another goroutine) between two atomic accesses of the caller.
type auditClock struct {
	ms   int64
	hook atomic.Value // func(c *auditClock, read uint64) uint64
}

func newAuditClock(startMs uint64) *auditClock {
	c := &auditClock{ms: int64(startMs)}
	c.hook.Store(func(_ *auditClock, v uint64) uint64 { return v })
	return c
}

func (c *auditClock) set(ms uint64)       { atomic.StoreInt64(&c.ms, int64(ms)) }
func (c *auditClock) read() uint64        { return uint64(atomic.LoadInt64(&c.ms)) }
func (c *auditClock) Now() time.Time      { return time.Unix(0, int64(c.read())*int64(time.Millisecond)) }
func (c *auditClock) Sleep(time.Duration) {}
func (c *auditClock) CurrentTimeNano() uint64 {
	return c.read() * uint64(time.Millisecond)
}
func (c *auditClock) CurrentTimeMillis() uint64 {
	return c.hook.Load().(func(*auditClock, uint64) uint64)(c, c.read())
}

// calledFrom reports whether a function whose name contains fn is on the current call stack.
func calledFrom(fn string) bool {
	pcs := make([]uintptr, 32)
	n := runtime.Callers(2, pcs)
	frames := runtime.CallersFrames(pcs[:n])
	for {
		f, more := frames.Next()
		if strings.Contains(f.Function, fn) {
			return true
		}
		if !more {
			return false
		}
	}
}

type auditListener struct {
	mu     sync.Mutex
	events []string
}

func (l *auditListener) add(s string) {
	l.mu.Lock()
	l.events = append(l.events, s)
	l.mu.Unlock()
}
func (l *auditListener) OnTransformToClosed(prev State, _ Rule) {
	l.add(fmt.Sprintf("%s->Closed@%d", prev.String(), util.CurrentClock().(*auditClock).read()))
}
func (l *auditListener) OnTransformToOpen(prev State, _ Rule, _ interface{}) {
	l.add(fmt.Sprintf("%s->Open@%d", prev.String(), util.CurrentClock().(*auditClock).read()))
}
func (l *auditListener) OnTransformToHalfOpen(prev State, _ Rule) {
	l.add(fmt.Sprintf("%s->HalfOpen@%d", prev.String(), util.CurrentClock().(*auditClock).read()))
}
func (l *auditListener) String() string {
	l.mu.Lock()
	defer l.mu.Unlock()
	return strings.Join(l.events, ", ")
}

const auditRetryMs = 1000

func auditSetup(t *testing.T, startMs uint64) (*auditClock, *auditListener, *errorCountCircuitBreaker) {
	t.Helper()
	prevClock := util.CurrentClock()
	clk := newAuditClock(startMs)
	util.SetClock(clk)
	ClearStateChangeListeners()
	l := &auditListener{}
	RegisterStateChangeListeners(l)
	t.Cleanup(func() {
		ClearStateChangeListeners()
		util.SetClock(prevClock)
	})
	// No ProbeNum configured: a half-open breaker admits exactly one probe.
	r := &Rule{
		Resource:         "audit-res",
		Strategy:         ErrorCount,
		RetryTimeoutMs:   auditRetryMs,
		MinRequestAmount: 1,
		StatIntervalMs:   10000,
		Threshold:        1,
	}
	if err := IsValidRule(r); err != nil {
		t.Fatalf("rule must be valid: %v", err)
	}
	b, err := newErrorCountCircuitBreaker(r)
	if err != nil {
		t.Fatal(err)
	}
	return clk, l, b
}

// auditRequest is one request as the slot chain presents it to a breaker: a context with its entry.
func auditRequest() (*base.EntryContext, *base.SentinelEntry) {
	rw := base.NewResourceWrapper("audit-res", base.ResTypeCommon, base.Inbound)
	ctx := base.NewEmptyEntryContext()
	ctx.Resource = rw
	ctx.RuleCheckResult = base.NewTokenResultPass()
	e := base.NewSentinelEntry(ctx, rw, nil)
	ctx.SetEntry(e)
	return ctx, e
}

// Finding 1. A request admitted while the breaker was Closed and completing successfully while the
// breaker is HalfOpen is taken for the probe: it closes the breaker although the one probe of this
// passage to half-open is still in flight, so further requests are admitted before the probe
// completes (and the probe's own failure is then no longer able to re-open the breaker).
func TestAuditStaleSuccessClosesBreakerWhileProbeInFlight(t *testing.T) {
	clk, l, b := auditSetup(t, 1_000_000)

	// G0: admitted while Closed, slow, still running.
	ctx0, _ := auditRequest()
	if !b.TryPass(ctx0) {
		t.Fatal("setup: closed breaker must admit")
	}
	// G1: admitted while Closed, fails -> the breaker opens.
	ctxE, _ := auditRequest()
	if !b.TryPass(ctxE) {
		t.Fatal("setup: closed breaker must admit")
	}
	b.OnRequestComplete(0, errors.New("biz error"))
	if b.CurrentState() != Open {
		t.Fatalf("setup: breaker should be Open, is %s", b.state.String())
	}
	// clock tick: the retry timeout elapses; G1 comes back and becomes THE probe.
	clk.set(1_000_000 + auditRetryMs)
	ctxP, _ := auditRequest()
	if !b.TryPass(ctxP) {
		t.Fatal("setup: the probe must be admitted after the retry timeout")
	}
	if b.CurrentState() != HalfOpen {
		t.Fatalf("setup: breaker should be HalfOpen, is %s", b.state.String())
	}
	// G2 is rejected, as it should be: the probe is in flight.
	ctxX, _ := auditRequest()
	if b.TryPass(ctxX) {
		t.Fatal("setup: second request during half-open must be rejected")
	}

	// G0 (the request from the Closed period, NOT the probe) completes successfully now.
	b.OnRequestComplete(0, nil)

	// The probe has not completed. Nothing but the probe may have been admitted so far.
	ctx2, _ := auditRequest()
	admitted := b.TryPass(ctx2)
	stateAfterStale := b.state.String()

	// Now the probe fails.
	b.OnRequestComplete(0, errors.New("probe failed"))
	stateAfterProbe := b.state.String()

	if admitted {
		t.Errorf("a request was admitted while the single probe of this half-open passage was still in flight: "+
			"the successful completion of a request admitted in the Closed period moved the breaker %s "+
			"(state after it: %s; after the real probe then FAILED the state is %s). "+
			"The property demands that each passage to half-open admits exactly one probe until that probe completes. "+
			"Transitions seen by the listener: [%s]",
			"HalfOpen->Closed", stateAfterStale, stateAfterProbe, l.String())
	}
}

// Finding 2. The exit hook that rolls a blocked probe back to Open does a bare cas(HalfOpen, Open):
// it does not check that the breaker is still in the half-open passage the hook was installed for,
// and it does not renew the retry deadline. A delayed Exit of a blocked probe therefore ends
// somebody else's later half-open passage while that passage's probe is in flight, and the next
// request is admitted as a second concurrent probe, at the very moment the breaker (re)opened.
func TestAuditBlockedProbeExitHookRollsBackLaterHalfOpenPassage(t *testing.T) {
	clk, l, b := auditSetup(t, 2_000_000)
	t0 := uint64(2_000_000)

	// GS: admitted while Closed, slow.
	ctxS, _ := auditRequest()
	if !b.TryPass(ctxS) {
		t.Fatal("setup")
	}
	// an error opens the breaker at t0.
	ctxE, _ := auditRequest()
	if !b.TryPass(ctxE) {
		t.Fatal("setup")
	}
	b.OnRequestComplete(0, errors.New("biz error"))
	if b.CurrentState() != Open {
		t.Fatal("setup: not open")
	}

	// t0+T: G1 probes (passage 1). Its request is then blocked by a check that runs after this
	// breaker (another breaker of the resource, or a later rule-check slot); G1 has not yet
	// reached entry.Exit().
	clk.set(t0 + auditRetryMs)
	ctx1, e1 := auditRequest()
	if !b.TryPass(ctx1) {
		t.Fatal("setup: probe 1 must be admitted")
	}
	ctx1.RuleCheckResult = base.NewTokenResultBlocked(base.BlockTypeCircuitBreaking)

	// GS completes with an error while HalfOpen: passage 1 ends, the breaker re-opens with a
	// fresh deadline t0+2T.
	b.OnRequestComplete(0, errors.New("late biz error"))
	if b.CurrentState() != Open {
		t.Fatalf("setup: expected re-open, state %s", b.state.String())
	}
	if b.TryPass(ctxE) {
		t.Fatal("setup: nothing may pass right after the re-open")
	}

	// t0+2T: G2 probes (passage 2), its probe is in flight.
	clk.set(t0 + 2*auditRetryMs)
	ctx2, _ := auditRequest()
	if !b.TryPass(ctx2) {
		t.Fatal("setup: probe 2 must be admitted after the second retry timeout")
	}
	if b.CurrentState() != HalfOpen {
		t.Fatal("setup: not half-open")
	}

	// Only now G1 gets to run Exit of its blocked entry.
	e1.Exit()
	stateAfterHook := b.state.String()

	// G3 arrives at the same instant. Probe 2 has not completed.
	ctx3, _ := auditRequest()
	admitted := b.TryPass(ctx3)

	if stateAfterHook != "HalfOpen" || admitted {
		t.Errorf("the exit hook of the blocked probe of half-open passage 1 ended half-open passage 2 "+
			"(state after the hook: %s, want HalfOpen) while the probe of passage 2 was in flight, and the next request "+
			"was admitted=%v as a further probe, 0 ms after that transition to Open was reported. "+
			"The property demands exactly one probe per passage to half-open until that probe completes, and no admission "+
			"while open before a full retry timeout (%d ms) has elapsed since it opened. Transitions seen by the listener: [%s]",
			stateAfterHook, admitted, auditRetryMs, l.String())
	}
}

// Finding 3. The retry deadline is computed from a clock reading taken BEFORE the cas that opens the
// breaker, and is corrected only after the cas. With a clock tick between that reading and the cas,
// a TryPass that runs between the cas and the correction sees Open together with a deadline that
// is earlier than (moment of opening + retry timeout) and admits the probe too early.
func TestAuditProbeAdmittedBeforeFullRetryTimeoutSinceOpening(t *testing.T) {
	clk, l, b := auditSetup(t, 3_000_000)
	t0 := uint64(3_000_000)
	const tick = 5

	var (
		calls      int32
		openedAt   uint64
		admittedAt uint64
		admitted   bool
	)
	clk.hook.Store(func(c *auditClock, v uint64) uint64 {
		if !calledFrom("updateNextRetryTimestamp") {
			return v
		}
		switch atomic.AddInt32(&calls, 1) {
		case 1:
			// The opener reads the clock (t0) for the deadline it publishes before its cas;
			// the clock ticks between this reading and the cas.
			c.set(v + tick)
			return v
		case 2:
			// The opener's second reading: its cas Closed->Open has just been done, at clock v.
			if b.CurrentState() != Open {
				return v
			}
			openedAt = v
			// The opener is descheduled here, before it can correct the deadline; the clock
			// runs on up to the pre-published deadline and another goroutine calls TryPass.
			c.set(t0 + auditRetryMs)
			done := make(chan struct{})
			go func() {
				defer close(done)
				ctx, _ := auditRequest()
				admitted = b.TryPass(ctx)
				admittedAt = c.read()
			}()
			<-done
			return c.read()
		}
		return v
	})

	ctxE, _ := auditRequest()
	if !b.TryPass(ctxE) {
		t.Fatal("setup")
	}
	b.OnRequestComplete(0, errors.New("biz error")) // opens the breaker

	if openedAt == 0 {
		t.Fatalf("setup: the hook did not observe the opening (calls=%d, state=%s)", calls, b.state.String())
	}
	if admitted && admittedAt-openedAt < auditRetryMs {
		t.Errorf("the breaker became Open at clock %d, and a request was admitted (Open->HalfOpen) at clock %d, "+
			"only %d ms later; the retry timeout is %d ms. The property demands that while the breaker is open no request is "+
			"admitted before a full retry timeout has elapsed since it opened. Transitions seen by the listener: [%s]",
			openedAt, admittedAt, admittedAt-openedAt, auditRetryMs, l.String())
	}
}
