package gin

import (
	"net/http"
	"net/http/httptest"
	"testing"

	sentinel "github.com/alibaba/sentinel-golang/api"
	"github.com/alibaba/sentinel-golang/core/flow"
	"github.com/gin-gonic/gin"
)

// Finding 3 (gin): a blocked request still reaches the wrapped handler when a block fallback is
// configured that writes the rejection but does not call c.Abort() - the very fallback the package's own
// unit test ("customize block fallback": ctx.String(400, "block")) uses. The middleware returns without
// c.Next(), but in gin returning does not stop the chain; only the default rejection aborts.
func TestAuditBlockedRequestStillRunsHandlerAfterCustomFallback(t *testing.T) {
	if err := sentinel.InitDefault(); err != nil {
		t.Fatalf("InitDefault: %v", err)
	}
	if _, err := flow.LoadRules([]*flow.Rule{{
		Resource:               "GET:/audit",
		Threshold:              0, // every request is blocked
		TokenCalculateStrategy: flow.Direct,
		ControlBehavior:        flow.Reject,
		StatIntervalInMs:       1000,
	}}); err != nil {
		t.Fatalf("LoadRules: %v", err)
	}
	defer flow.ClearRules()

	gin.SetMode(gin.TestMode)
	fallbackRuns, handlerRuns := 0, 0
	router := gin.New()
	router.Use(SentinelMiddleware(WithBlockFallback(func(c *gin.Context) {
		fallbackRuns++
		c.String(http.StatusBadRequest, "block") // same as middleware_test.go "customize block fallback"
	})))
	router.GET("/audit", func(c *gin.Context) {
		handlerRuns++
		c.String(http.StatusOK, "handler ran")
	})

	w := httptest.NewRecorder()
	router.ServeHTTP(w, httptest.NewRequest(http.MethodGet, "/audit", nil))

	if fallbackRuns != 1 {
		t.Fatalf("set-up broken: the request was expected to be blocked exactly once, fallback ran %d times", fallbackRuns)
	}
	if handlerRuns != 0 {
		t.Errorf("request on GET:/audit was blocked by Sentinel (fallback ran, status %d) but the wrapped handler was "+
			"invoked %d time(s) and the response body is %q; the property demands that the handler is not invoked when "+
			"the request is blocked", w.Code, handlerRuns, w.Body.String())
	}
}
