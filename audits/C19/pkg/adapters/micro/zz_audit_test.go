package micro

import (
	"context"
	"fmt"
	"testing"

	"github.com/micro/go-micro/v2/client"
	"github.com/micro/go-micro/v2/client/selector"
	"github.com/micro/go-micro/v2/registry"
	"github.com/micro/go-micro/v2/registry/memory"
	"github.com/micro/go-micro/v2/server"

	sentinel "github.com/alibaba/sentinel-golang/api"
	"github.com/alibaba/sentinel-golang/core/base"
	"github.com/alibaba/sentinel-golang/core/flow"
	"github.com/alibaba/sentinel-golang/core/stat"
)

// ---------------------------------------------------------------------------
// helpers
// ---------------------------------------------------------------------------

func auditInit(t *testing.T) {
	t.Helper()
	if err := sentinel.InitDefault(); err != nil {
		t.Fatalf("InitDefault: %v", err)
	}
}

type auditServerRequest struct {
	server.Request // nil, only Method is used by the wrapper
	method         string
}

func (r *auditServerRequest) Method() string { return r.method }

type auditServerStream struct {
	req  *auditServerRequest
	sent []interface{}
}

func (s *auditServerStream) Context() context.Context { return context.Background() }
func (s *auditServerStream) Request() server.Request  { return s.req }
func (s *auditServerStream) Send(v interface{}) error { s.sent = append(s.sent, v); return nil }
func (s *auditServerStream) Recv(interface{}) error   { return nil }
func (s *auditServerStream) Error() error             { return nil }
func (s *auditServerStream) Close() error             { return nil }

// ---------------------------------------------------------------------------
// Finding 1: NewStreamWrapper looks at the UNARY options to decide whether to use the STREAM
// fallback, so the configured stream fallback is not produced (or a nil function is called).
// ---------------------------------------------------------------------------

func TestAuditStreamWrapperBlockedIgnoresConfiguredFallback(t *testing.T) {
	auditInit(t)
	const res = "Audit.StreamBlocked"
	if _, err := flow.LoadRules([]*flow.Rule{{
		Resource:               res,
		Threshold:              0,
		TokenCalculateStrategy: flow.Direct,
		ControlBehavior:        flow.Reject,
		StatIntervalInMs:       1000,
	}}); err != nil {
		t.Fatalf("LoadRules: %v", err)
	}
	defer flow.ClearRules()

	t.Run("stream fallback configured", func(t *testing.T) {
		fallbackCalls := 0
		var fallbackStream server.Stream = &auditServerStream{req: &auditServerRequest{method: "fallback"}}
		wrap := NewStreamWrapper(WithStreamServerBlockFallback(func(s server.Stream, be *base.BlockError) server.Stream {
			fallbackCalls++
			return fallbackStream
		}))
		in := &auditServerStream{req: &auditServerRequest{method: res}}
		out := wrap(in)
		if fallbackCalls != 1 || out != fallbackStream {
			t.Errorf("blocked stream on %q: the fallback configured with WithStreamServerBlockFallback was called %d times "+
				"and the wrapper returned the original stream=%v after sending %v on it; the property demands that for a "+
				"blocked request the CONFIGURED fallback is produced (the default rejection only when none is configured)",
				res, fallbackCalls, out == server.Stream(in), in.sent)
		}
	})

	t.Run("options shared with NewHandlerWrapper", func(t *testing.T) {
		// The usual way to set up both wrappers: one option list for the unary and the stream wrapper.
		// Only a unary fallback is configured, so the stream wrapper has to produce its default rejection.
		shared := []Option{WithServerBlockFallback(func(context.Context, server.Request, *base.BlockError) error {
			return fmt.Errorf("unary fallback")
		})}
		_ = NewHandlerWrapper(shared...)
		wrap := NewStreamWrapper(shared...)
		in := &auditServerStream{req: &auditServerRequest{method: res}}
		func() {
			defer func() {
				if p := recover(); p != nil {
					t.Errorf("blocked stream on %q with only WithServerBlockFallback configured: the wrapper panicked (%v) "+
						"instead of producing the default rejection; the property demands the configured fallback or the "+
						"default rejection for every blocked request", res, p)
				}
			}()
			out := wrap(in)
			if len(in.sent) != 1 || out != server.Stream(in) {
				t.Errorf("default rejection not produced: sent=%v", in.sent)
			}
		}()
	})
}

// ---------------------------------------------------------------------------
// Finding 2: in outlier mode the client wrapper never traces the error of the wrapped
// Client.Stream (and of Client.Call when it fails before a node is called).
// ---------------------------------------------------------------------------

func TestAuditOutlierClientErrorNotTraced(t *testing.T) {
	auditInit(t)

	newClient := func(outlier bool, reg registry.Registry) client.Client {
		return client.NewClient(
			client.Selector(selector.NewSelector(selector.Registry(reg))),
			client.Retries(0),
			client.Wrap(NewClientWrapper(
				WithEnableOutlier(func(context.Context) bool { return outlier }),
				// normal mode: use the service name as resource too, so both modes are observed alike
				WithClientResourceExtractor(func(_ context.Context, r client.Request) string { return r.Service() }),
				WithStreamClientResourceExtractor(func(_ context.Context, r client.Request) string { return r.Service() }),
			)),
		)
	}
	// a registry that knows the service, whose only node refuses connections
	regWithDeadNode := func(service string) registry.Registry {
		reg := memory.NewRegistry()
		if err := reg.Register(&registry.Service{
			Name:    service,
			Version: "latest",
			Nodes:   []*registry.Node{{Id: service + "-1", Address: "127.0.0.1:1"}},
		}); err != nil {
			t.Fatalf("register: %v", err)
		}
		return reg
	}

	check := func(t *testing.T, what, res string, callErr error) {
		t.Helper()
		if callErr == nil {
			t.Fatalf("%s: test set-up broken, the wrapped client was expected to fail", what)
		}
		// the statistic slot (part of the global chain and of the chain the wrapper builds in outlier mode)
		// counts one pass per admitted entry, one complete per exit and one error per exit with a traced error
		node := stat.GetResourceNode(res)
		if node == nil {
			t.Fatalf("%s: no statistic node for %q, the wrapper did not ask Sentinel for an entry", what, res)
		}
		passed, completed, errs := node.GetSum(base.MetricEventPass), node.GetSum(base.MetricEventComplete), node.GetSum(base.MetricEventError)
		if passed != 1 || completed != 1 {
			t.Fatalf("%s: entry on %q passed %d times and completed %d times, want 1/1", what, res, passed, completed)
		}
		if errs != 1 {
			t.Errorf("%s: the wrapped handler failed with %q, but the entry on %q was exited with %d traced errors; "+
				"the property demands that handler errors are traced on the entry before it is exited", what, callErr, res, errs)
		}
	}

	// control: the same failures ARE traced when outlier mode is off
	t.Run("control normal mode stream", func(t *testing.T) {
		const svc = "audit.normal.stream"
		c := newClient(false, regWithDeadNode(svc))
		_, err := c.Stream(context.Background(), c.NewRequest(svc, "Test.Ping", &struct{}{}))
		check(t, "normal-mode Stream", svc, err)
	})

	t.Run("outlier mode stream, node refuses connection", func(t *testing.T) {
		const svc = "audit.outlier.stream.deadnode"
		c := newClient(true, regWithDeadNode(svc))
		_, err := c.Stream(context.Background(), c.NewRequest(svc, "Test.Ping", &struct{}{}))
		check(t, "outlier-mode Stream (node refuses the connection)", svc, err)
	})

	t.Run("outlier mode stream, service unknown", func(t *testing.T) {
		const svc = "audit.outlier.stream.unknown"
		c := newClient(true, memory.NewRegistry())
		_, err := c.Stream(context.Background(), c.NewRequest(svc, "Test.Ping", &struct{}{}))
		check(t, "outlier-mode Stream (service not in registry)", svc, err)
	})

	t.Run("outlier mode call, service unknown", func(t *testing.T) {
		const svc = "audit.outlier.call.unknown"
		c := newClient(true, memory.NewRegistry())
		err := c.Call(context.Background(), c.NewRequest(svc, "Test.Ping", &struct{}{}), &struct{}{})
		check(t, "outlier-mode Call (service not in registry)", svc, err)
	})
}
