package api

// Audit of the property "Public API is race free and rule switches are atomic under live traffic".
// See AUDIT.md at the root of the worktree. Every test here FAILS on the unmodified code.
//
//	go test -vet=off -count=1 -run Audit ./api/
//
// Two of the three tests observe a data race / a fatal runtime error. Neither can be reported by the
// goroutine that suffers it, so the racing part runs in a child process (the test binary itself, or
// "go test -race" of this package for the test that needs the race detector) and the parent test
// judges the child's output.

import (
	"bytes"
	"errors"
	"fmt"
	"os"
	"os/exec"
	"strings"
	"sync"
	"sync/atomic"
	"testing"
	"time"

	"github.com/alibaba/sentinel-golang/core/circuitbreaker"
	"github.com/alibaba/sentinel-golang/core/flow"
	"github.com/alibaba/sentinel-golang/core/hotspot"
	"github.com/alibaba/sentinel-golang/core/outlier"
	"github.com/alibaba/sentinel-golang/logging"
)

const auditChildEnv = "SENTINEL_AUDIT_CHILD"

func auditQuiet() {
	// nothing below ErrorLevel+ : the racing loops log thousands of lines otherwise
	logging.ResetGlobalLoggerLevel(logging.Level(100))
}

func auditChildEnviron(name string) []string {
	env := append([]string{}, os.Environ()...)
	env = append(env, auditChildEnv+"="+name)
	// a child that runs under the race detector stops at the first report
	env = append(env, "GORACE=halt_on_error=1")
	return env
}

// excerpt returns the part of out around the first occurrence of marker.
func auditExcerpt(out, marker string, lines int) string {
	idx := strings.Index(out, marker)
	if idx < 0 {
		return ""
	}
	rest := strings.Split(out[idx:], "\n")
	if len(rest) > lines {
		rest = rest[:lines]
	}
	return strings.Join(rest, "\n")
}

// ---------------------------------------------------------------------------------------------
// Finding 1: Entry/Exit alone are a data race (LeapArray.currentBucketOfTime reads BucketStart
// without synchronisation) for a circuit breaker rule whose statistic buckets are 1 ms long.
// ---------------------------------------------------------------------------------------------

func auditLeapArrayTraffic(d time.Duration) {
	auditQuiet()
	const res = "audit-leap"
	_, _ = circuitbreaker.LoadRulesOfResource(res, []*circuitbreaker.Rule{{
		Resource:                     res,
		Strategy:                     circuitbreaker.ErrorCount,
		RetryTimeoutMs:               1000,
		MinRequestAmount:             1 << 40,
		StatIntervalMs:               2,
		StatSlidingWindowBucketCount: 2, // two buckets of one millisecond
		Threshold:                    1e12,
	}})
	defer circuitbreaker.ClearRulesOfResource(res)

	var stop int32
	var wg sync.WaitGroup
	for i := 0; i < 64; i++ {
		wg.Add(1)
		go func() {
			defer wg.Done()
			for atomic.LoadInt32(&stop) == 0 {
				e, b := Entry(res)
				if b == nil {
					e.Exit()
				}
			}
		}()
	}
	time.Sleep(d)
	atomic.StoreInt32(&stop, 1)
	wg.Wait()
}

func TestAuditEntryExitDataRaceOnBucketStart(t *testing.T) {
	const name = "TestAuditEntryExitDataRaceOnBucketStart"
	if os.Getenv(auditChildEnv) == name {
		// child: plain traffic, nothing else. Under -race the detector fails this test by itself.
		auditLeapArrayTraffic(12 * time.Second)
		return
	}
	goBin, err := exec.LookPath("go")
	if err != nil {
		t.Skipf("the go tool is needed to run the traffic under the race detector: %v", err)
	}
	// The race detector is the oracle for "without data races"; the parent may have been built without it.
	cmd := exec.Command(goBin, "test", "-race", "-vet=off", "-count=1", "-run", "^"+name+"$", ".")
	cmd.Env = auditChildEnviron(name)
	var buf bytes.Buffer
	cmd.Stdout, cmd.Stderr = &buf, &buf
	runErr := cmd.Run()
	out := buf.String()
	if strings.Contains(out, "WARNING: DATA RACE") {
		t.Fatalf("64 goroutines that only call api.Entry and entry.Exit on one resource (circuit breaker rule with "+
			"StatIntervalMs=2, StatSlidingWindowBucketCount=2) are reported as a DATA RACE by the race detector: "+
			"LeapArray.currentBucketOfTime reads BucketWrap.BucketStart with a plain load (leap_array.go, the "+
			"\"already behind\" error message) while another completion resets the bucket with atomic.StoreUint64. "+
			"The property demands that Entry and Exit may be called concurrently from any number of goroutines "+
			"without data races.\n--- race detector output (first report) ---\n%s",
			auditExcerpt(out, "WARNING: DATA RACE", 40))
	}
	if runErr != nil {
		t.Logf("child run ended with %v and no race report; output tail:\n%s", runErr, tail(out, 30))
	}
}

func tail(s string, n int) string {
	l := strings.Split(s, "\n")
	if len(l) > n {
		l = l[len(l)-n:]
	}
	return strings.Join(l, "\n")
}

// ---------------------------------------------------------------------------------------------
// Finding 2: outlier rule switch: a completion that raced with LoadRules leaves a node breaker
// built from the OLD rule in the breaker set of the NEW rule, where it stays and decides the
// requests that come later.
// ---------------------------------------------------------------------------------------------

func TestAuditOutlierRuleSwitchLeavesBreakerOfOldRule(t *testing.T) {
	auditQuiet()
	const res = "audit-outlier-switch"
	sc := BuildDefaultSlotChain()
	sc.AddRuleCheckSlot(outlier.DefaultSlot)
	sc.AddStatSlot(outlier.DefaultMetricStatSlot)

	mkRule := func(threshold float64) *outlier.Rule {
		return &outlier.Rule{
			Rule: &circuitbreaker.Rule{
				Resource:         res,
				Strategy:         circuitbreaker.ErrorCount,
				RetryTimeoutMs:   10 * 60 * 1000,
				MinRequestAmount: 1,
				StatIntervalMs:   10 * 60 * 1000,
				Threshold:        threshold,
			},
			MaxEjectionPercent: 1.0,
			RecycleIntervalS:   3600,
		}
	}
	defer outlier.ClearRules()

	complete := func(addr string, err error) {
		e, b := Entry(res, WithSlotChain(sc))
		if b != nil {
			return
		}
		TraceCallee(e, addr)
		if err != nil {
			TraceError(e, err)
		}
		e.Exit()
	}

	var seq int64
	deadline := time.Now().Add(20 * time.Second)
	for round := 1; time.Now().Before(deadline); round++ {
		// OLD rule: a node is ejected at its first error.
		if _, err := outlier.LoadRules([]*outlier.Rule{mkRule(1)}); err != nil {
			t.Fatal(err)
		}
		var stop int32
		var wg sync.WaitGroup
		var mu sync.Mutex
		var addrs []string
		for g := 0; g < 8; g++ {
			wg.Add(1)
			go func() {
				defer wg.Done()
				var mine []string
				for atomic.LoadInt32(&stop) == 0 {
					// a successful call to a node that was not seen before
					addr := fmt.Sprintf("10.%d.0.1:80", atomic.AddInt64(&seq, 1))
					complete(addr, nil)
					mine = append(mine, addr)
				}
				mu.Lock()
				addrs = append(addrs, mine...)
				mu.Unlock()
			}()
		}
		time.Sleep(3 * time.Millisecond)
		// NEW rule, loaded under live traffic: no realistic number of errors ejects a node.
		if _, err := outlier.LoadRules([]*outlier.Rule{mkRule(1e9)}); err != nil {
			t.Fatal(err)
		}
		atomic.StoreInt32(&stop, 1)
		wg.Wait()

		// Quiescent now, LoadRules returned long ago: every decision must come from the new rule.
		got := outlier.GetRules()
		if len(got) != 1 || got[0].Threshold != 1e9 {
			t.Fatalf("unexpected rules after the switch: %+v", got)
		}
		for _, a := range addrs {
			complete(a, errors.New("boom")) // one error per node
		}
		e, b := Entry(res, WithSlotChain(sc))
		if b != nil {
			t.Fatalf("unexpected block: %v", b)
		}
		filtered := append([]string(nil), e.Context().FilterNodes()...)
		e.Exit()
		if len(filtered) > 0 {
			t.Fatalf("round %d: the only outlier rule of %q has been ErrorCount threshold=1e9 since LoadRules returned "+
				"(GetRules reports exactly that), %d nodes then had ONE error each, and %d of them are ejected (FilterNodes=%v ...). "+
				"One error ejects a node only under the OLD rule (threshold=1): completions that raced with LoadRules "+
				"(MetricStatSlot.OnCompleted -> addNodeBreakerOfResource) built a breaker from the old rule and "+
				"installed it into the new rule's breaker set after the switch, where it keeps deciding later requests. "+
				"The property demands that a request is decided entirely by the old or entirely by the new rule list.",
				round, res, len(addrs), len(filtered), filtered[:minInt(3, len(filtered))])
		}
		_ = outlier.ClearRules()
	}
	t.Log("the interleaving was not hit in 20 s (it needs a completion between its rule lookup and its insert while LoadRules runs); see AUDIT.md")
}

func minInt(a, b int) int {
	if a < b {
		return a
	}
	return b
}

// ---------------------------------------------------------------------------------------------
// Finding 3: LoadRules reads the generator registry without the lock that
// Set/RemoveTrafficShapingGenerator (flow, hotspot) and Set/RemoveCircuitBreakerGenerator hold
// for writing it: the Go runtime aborts the whole process.
// ---------------------------------------------------------------------------------------------

func auditGeneratorRegistryChurn(d time.Duration) {
	auditQuiet()
	var stop int32
	var wg sync.WaitGroup
	loop := func(f func(i int)) {
		wg.Add(1)
		go func() {
			defer wg.Done()
			for i := 1; atomic.LoadInt32(&stop) == 0; i++ {
				f(i)
			}
		}()
	}
	// rule loading (every load differs from the previous one, so it is carried out)
	loop(func(i int) {
		_, _ = flow.LoadRules([]*flow.Rule{{Resource: "audit-gen", Threshold: float64(i)}})
	})
	loop(func(i int) {
		_, _ = hotspot.LoadRules([]*hotspot.Rule{{Resource: "audit-gen", MetricType: hotspot.Concurrency, ParamIndex: 0, Threshold: int64(i)}})
	})
	loop(func(i int) {
		_, _ = circuitbreaker.LoadRules([]*circuitbreaker.Rule{{Resource: "audit-gen", Strategy: circuitbreaker.ErrorCount,
			RetryTimeoutMs: 1000, MinRequestAmount: 1, StatIntervalMs: 1000, Threshold: float64(i)}})
	})
	// registration of a user defined control behaviour / strategy, as the API documents it
	loop(func(i int) {
		_ = hotspot.SetTrafficShapingGenerator(hotspot.ControlBehavior(100),
			func(r *hotspot.Rule, reuseMetric *hotspot.ParamsMetric) hotspot.TrafficShapingController { return nil })
		_ = hotspot.RemoveTrafficShapingGenerator(hotspot.ControlBehavior(100))
	})
	loop(func(i int) {
		_ = circuitbreaker.SetCircuitBreakerGenerator(circuitbreaker.Strategy(100),
			func(r *circuitbreaker.Rule, reuseStat interface{}) (circuitbreaker.CircuitBreaker, error) {
				return nil, errors.New("not used")
			})
		_ = circuitbreaker.RemoveCircuitBreakerGenerator(circuitbreaker.Strategy(100))
	})
	loop(func(i int) {
		// (a generator for flow cannot be written outside the package: its signature names an
		// unexported type. Removing one is possible.)
		_ = flow.RemoveTrafficShapingGenerator(flow.TokenCalculateStrategy(100), flow.ControlBehavior(100))
	})
	time.Sleep(d)
	atomic.StoreInt32(&stop, 1)
	wg.Wait()
}

func TestAuditLoadRulesVersusGeneratorRegistration(t *testing.T) {
	const name = "TestAuditLoadRulesVersusGeneratorRegistration"
	if os.Getenv(auditChildEnv) == name {
		auditGeneratorRegistryChurn(5 * time.Second)
		return
	}
	cmd := exec.Command(os.Args[0], "-test.run", "^"+name+"$", "-test.count=1")
	cmd.Env = auditChildEnviron(name)
	var buf bytes.Buffer
	cmd.Stdout, cmd.Stderr = &buf, &buf
	runErr := cmd.Run()
	out := buf.String()
	for _, marker := range []string{"fatal error: concurrent map", "WARNING: DATA RACE"} {
		if strings.Contains(out, marker) {
			t.Fatalf("a process that calls LoadRules of flow / hotspot / circuitbreaker in some goroutines and "+
				"Set/Remove...Generator of the same modules in others was ABORTED by the Go runtime (%q, exit: %v). "+
				"The setters write tcGenFuncMap / cbGenFuncMap under tcMux / updateMux, LoadRules reads the same map "+
				"holding only updateRuleMux. The property demands that the public API, rule loading included, can be "+
				"called concurrently without data races, panics or deadlock.\n--- child output ---\n%s",
				marker, runErr, auditExcerpt(out, marker, 25))
		}
	}
	if runErr != nil {
		t.Logf("child ended with %v but without the expected marker; output tail:\n%s", runErr, tail(out, 30))
	}
}
