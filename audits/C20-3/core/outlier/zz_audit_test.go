package outlier

import (
	"errors"
	"testing"
	"time"

	"github.com/alibaba/sentinel-golang/core/base"
	"github.com/alibaba/sentinel-golang/core/circuitbreaker"
)

func auditChain() *base.SlotChain {
	sc := base.NewSlotChain()
	sc.AddRuleCheckSlot(DefaultSlot)
	sc.AddStatSlot(DefaultMetricStatSlot)
	return sc
}

// auditEnter runs the rule check phase of a request (outlier.Slot.Check) and returns the entry.
func auditEnter(t *testing.T, sc *base.SlotChain, res string) *base.SentinelEntry {
	ctx := sc.GetPooledContext()
	ctx.Resource = base.NewResourceWrapper(res, base.ResTypeRPC, base.Outbound)
	e := base.NewSentinelEntry(ctx, ctx.Resource, sc)
	ctx.SetEntry(e)
	if r := sc.Entry(ctx); r != nil && r.IsBlocked() {
		t.Fatalf("unexpected block of %s", res)
	}
	return e
}

// auditComplete finishes a request that was served by node address.
func auditComplete(e *base.SentinelEntry, address string, err error) {
	e.SetPair("address", address)
	if err != nil {
		e.SetError(err)
	}
	e.Exit()
}

func auditContains(list []string, s string) bool {
	for _, v := range list {
		if v == s {
			return true
		}
	}
	return false
}

func auditWaitFor(t *testing.T, what string, cond func() bool) {
	deadline := time.Now().Add(2 * time.Second)
	for !cond() {
		if time.Now().After(deadline) {
			t.Fatalf("timed out waiting for %s", what)
		}
		time.Sleep(time.Millisecond)
	}
}

// The order of events the callers see is the same in both runs:
//
//	t0      a request is told to filter node A (its breaker is open)
//	t0+     a request that had been sent to A earlier completes successfully
//	t0+1s   (RecycleIntervalS = 1) ...
//
// run(false): the goroutine that consumes recyclerCh handles the task of the t0 request at once.
// run(true):  that goroutine is busy with the recycler of another resource until after the completion.
//
// Slot.Check only queues the node for the recycler; the entry in Recycler.status that a successful
// completion marks does not exist until the consumer goroutine has run. A completion in between is lost.
func auditRunRecycleRace(t *testing.T, res string, consumerIsLate bool) (aKnownAfterInterval bool) {
	rule := &Rule{
		Rule: &circuitbreaker.Rule{
			Resource:         res,
			Strategy:         circuitbreaker.ErrorCount,
			RetryTimeoutMs:   600000, // no passive probe during the test
			MinRequestAmount: 1,
			StatIntervalMs:   600000,
			Threshold:        1,
		},
		MaxEjectionPercent: 1.0,
		RecycleIntervalS:   1,
	}
	if _, err := LoadRuleOfResource(res, rule); err != nil {
		t.Fatal(err)
	}
	defer ClearRuleOfResource(res)
	sc := auditChain()

	// node B is known and healthy
	auditComplete(auditEnter(t, sc, res), "B", nil)
	// a slow request is on its way to node A
	slow := auditEnter(t, sc, res)
	// meanwhile A fails once: its breaker opens (ErrorCount threshold 1)
	auditComplete(auditEnter(t, sc, res), "A", errors.New("boom"))
	if b := getNodeBreakersOfResource(res)["A"]; b == nil || b.CurrentState() != circuitbreaker.Open {
		t.Fatalf("set-up: breaker of A should be open")
	}

	var stall *Recycler
	if consumerIsLate {
		// The consumer goroutine of recyclerCh serves all resources one task at a time. Keep it busy with
		// another resource (it waits for that resource's Recycler, as it does while a timer of that
		// Recycler is inside recycle()).
		stallRes := res + "-other"
		stall = getRecyclerOfResource(stallRes)
		stall.mtx.Lock()
		recyclerCh <- task{[]string{"x"}, stallRes}
		auditWaitFor(t, "the consumer to take the other resource's task", func() bool { return len(recyclerCh) == 0 })
		time.Sleep(20 * time.Millisecond)
	}

	// t0: a request is told to filter A
	x := auditEnter(t, sc, res)
	if !auditContains(x.Context().FilterNodes(), "A") {
		t.Fatalf("set-up: A should be reported for filtering, got %v", x.Context().FilterNodes())
	}
	auditComplete(x, "B", nil)
	if !consumerIsLate {
		auditWaitFor(t, "A to be scheduled", func() bool {
			r := getRecyclerOfResource(res)
			r.mtx.Lock()
			defer r.mtx.Unlock()
			_, ok := r.status["A"]
			return ok
		})
	}

	// t0+: the slow request to A completes successfully
	auditComplete(slow, "A", nil)

	if consumerIsLate {
		stall.mtx.Unlock()
	}

	time.Sleep(1500 * time.Millisecond)
	_, known := getNodeBreakersOfResource(res)["A"]
	return known
}

func TestAuditSuccessBetweenCheckAndRecyclerSchedulingIsLost(t *testing.T) {
	if !auditRunRecycleRace(t, "audit-recycle-prompt", false) {
		t.Fatalf("control run: node A completed a request successfully within the recycle interval and was recycled all the same")
	}
	if !auditRunRecycleRace(t, "audit-recycle-late", true) {
		t.Fatalf("node A was reported for filtering at t0, completed a request successfully right after t0, and was " +
			"recycled (its breaker deleted) one RecycleIntervalS later: the successful completion arrived before the " +
			"goroutine consuming recyclerCh had created the Recycler.status entry, so recover() dropped it. " +
			"The property demands that a node that completes a request successfully is not recycled " +
			"(with a prompt consumer goroutine the same sequence keeps the node, see the control run)")
	}
}
