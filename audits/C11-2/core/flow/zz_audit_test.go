package flow_test

// Audit of the property "Adaptive thresholds stay inside their configured envelope".
// Every test in this file FAILS on the unmodified code; see AUDIT.md at the root of the tree.

import (
	"fmt"
	"math"
	"sync"
	"sync/atomic"
	"testing"
	"time"

	"github.com/alibaba/sentinel-golang/api"
	"github.com/alibaba/sentinel-golang/core/base"
	"github.com/alibaba/sentinel-golang/core/config"
	"github.com/alibaba/sentinel-golang/core/flow"
	"github.com/alibaba/sentinel-golang/logging"
	"github.com/alibaba/sentinel-golang/util"
)

// auditClock is a purely virtual clock: it only moves when the test (or a throttling wait) moves it.
type auditClock struct {
	mu  sync.Mutex
	now int64 // ns since the epoch
}

func (c *auditClock) Now() time.Time {
	c.mu.Lock()
	defer c.mu.Unlock()
	return time.Unix(0, c.now)
}
func (c *auditClock) Sleep(d time.Duration) {
	if d > 0 {
		c.mu.Lock()
		c.now += int64(d)
		c.mu.Unlock()
	}
}
func (c *auditClock) CurrentTimeMillis() uint64 { return uint64(c.Now().UnixNano()) / 1e6 }
func (c *auditClock) CurrentTimeNano() uint64   { return uint64(c.Now().UnixNano()) }
func (c *auditClock) setMs(ms int64) {
	c.mu.Lock()
	c.now = ms * 1e6
	c.mu.Unlock()
}

var (
	auditInitOnce sync.Once
	// virtual time starts a day after the real time, so that it never lies before anything the
	// process stamped with the real clock while it was initialised
	auditClk = &auditClock{now: time.Now().Add(24 * time.Hour).UnixNano()}
)

// auditFreshStart moves the virtual clock forward (never backward) to the start of a second that lies at
// least ten minutes after everything that happened before, and returns it in ms.
func auditFreshStart() int64 {
	ms := int64(auditClk.CurrentTimeMillis()) + 600000
	ms -= ms % 1000
	auditClk.setMs(ms)
	return ms
}

func auditInit(t *testing.T) {
	auditInitOnce.Do(func() {
		conf := config.NewDefaultConfig()
		conf.Sentinel.Log.Logger = logging.NewConsoleLogger()
		conf.Sentinel.Log.Metric.FlushIntervalSec = 0
		conf.Sentinel.Stat.System.CollectIntervalMs = 0
		conf.Sentinel.Stat.System.CollectMemoryIntervalMs = 0
		conf.Sentinel.Stat.System.CollectCpuIntervalMs = 0
		conf.Sentinel.Stat.System.CollectLoadIntervalMs = 0
		if err := api.InitWithConfig(conf); err != nil {
			t.Fatal(err)
		}
	})
	logging.ResetGlobalLoggerLevel(logging.ErrorLevel)
	util.SetClock(auditClk)
}

// auditDemand offers `requests` entries of `batch` tokens each in every one of `seconds` consecutive
// seconds starting at startMs (evenly spread over the second) and returns the TOKENS admitted per second.
func auditDemand(res string, startMs int64, seconds, requests int, batch uint32) []int {
	admitted := make([]int, seconds)
	for s := 0; s < seconds; s++ {
		for k := 0; k < requests; k++ {
			auditClk.setMs(startMs + int64(s)*1000 + int64(k)*1000/int64(requests))
			e, b := api.Entry(res, api.WithTrafficType(base.Inbound), api.WithBatchCount(batch))
			if b == nil {
				admitted[s] += int(batch)
				e.Exit()
			}
		}
	}
	return admitted
}

// Finding 1: a sustained demand made of multi-token (batch) requests never warms the rule up.
//
// The bucket above the warning line is refilled whenever the tokens that passed in the previous
// second are fewer than floor(threshold/coldFactor). With requests of b tokens only
// floor(coldRate/b)*b tokens fit under the cold rate; when that is smaller than floor(threshold/coldFactor)
// the demand - however heavy - counts as "low traffic" for ever, the bucket is topped up every second and
// the rule stays at its cold rate for ever (or, when one request is larger than the cold rate, admits nothing
// at all although every single request is smaller than the configured threshold).
func TestAuditWarmUpBatchDemandNeverLeavesColdRate(t *testing.T) {
	auditInit(t)
	defer flow.ClearRules()

	t.Run("threshold33_batch2_stuck_at_cold_rate", func(t *testing.T) {
		const res = "audit-c11-batch-33"
		start := auditFreshStart()
		rule := &flow.Rule{Resource: res, TokenCalculateStrategy: flow.WarmUp, ControlBehavior: flow.Reject,
			Threshold: 33, WarmUpPeriodSec: 5} // default cold factor 3: cold rate 11 tokens/s
		if _, err := flow.LoadRules([]*flow.Rule{rule}); err != nil {
			t.Fatal(err)
		}
		// 50 requests x 2 tokens = 100 tokens/s offered, three times the threshold, for 12 warm-up periods
		admitted := auditDemand(res, start, 60, 50, 2)
		max := 0
		for _, a := range admitted {
			if a > max {
				max = a
			}
		}
		if max < 32 {
			t.Errorf("warm-up rule {threshold 33, period 5 s, cold factor 3} under a sustained demand of 100 tokens/s "+
				"(50 requests of 2 tokens per second) for 60 s = 12 warm-up periods: the admitted rate never rose above %d tokens/s "+
				"(per second: %v). The property demands that the rule reaches the full threshold (32 tokens/s with 2-token requests) "+
				"after sustained demand for the warm-up period (5 s).", max, admitted)
		}
	})

	t.Run("threshold3_batch2_admits_nothing", func(t *testing.T) {
		const res = "audit-c11-batch-3"
		start := auditFreshStart()
		rule := &flow.Rule{Resource: res, TokenCalculateStrategy: flow.WarmUp, ControlBehavior: flow.Reject,
			Threshold: 3, WarmUpPeriodSec: 2}
		if _, err := flow.LoadRules([]*flow.Rule{rule}); err != nil {
			t.Fatal(err)
		}
		admitted := auditDemand(res, start, 30, 10, 2)
		total := 0
		for _, a := range admitted {
			total += a
		}
		if total == 0 {
			t.Errorf("warm-up rule {threshold 3, period 2 s, cold factor 3} under a sustained demand of 10 requests of 2 tokens per second "+
				"for 30 s = 15 warm-up periods admitted nothing at all (per second: %v), although one request (2 tokens) is smaller than the "+
				"threshold (3). The property demands that the rule reaches the full threshold after sustained demand for the warm-up period.", admitted)
		}
	})
}

// auditBarrierSlot is a passive rule-check slot placed behind the flow slot. It only delays: it holds every
// caller that the flow slot has let through until `parties` callers have arrived (or a timeout expires), i.e.
// it pins down the interleaving "all callers are checked before the first of them is counted", which the
// scheduler is free to produce on its own.
type auditBarrierSlot struct {
	parties int32
	arrived int32
	release chan struct{}
	once    sync.Once
}

func (s *auditBarrierSlot) Order() uint32 { return flow.RuleCheckSlotOrder + 1 }
func (s *auditBarrierSlot) Check(ctx *base.EntryContext) *base.TokenResult {
	if atomic.AddInt32(&s.arrived, 1) >= s.parties {
		s.once.Do(func() { close(s.release) })
	}
	select {
	case <-s.release:
	case <-time.After(2 * time.Second):
	}
	return nil
}

// Finding 2: the check of a rule and the count of the pass are two separate steps (flow slot / statistic
// slot); callers that are checked before the first of them is counted all see the same pass count and are
// all admitted. A cold warm-up rule admits a multiple of its configured (full) threshold in one second.
func TestAuditWarmUpConcurrentCallersExceedThreshold(t *testing.T) {
	auditInit(t)
	defer flow.ClearRules()

	const res = "audit-c11-concurrent"
	const callers = 64
	auditFreshStart()
	rule := &flow.Rule{Resource: res, TokenCalculateStrategy: flow.WarmUp, ControlBehavior: flow.Reject,
		Threshold: 4, WarmUpPeriodSec: 10, WarmUpColdFactor: 2} // cold rate 2/s, full rate 4/s
	if _, err := flow.LoadRules([]*flow.Rule{rule}); err != nil {
		t.Fatal(err)
	}

	// (a) no helper at all: goroutines released together, the virtual clock stands still inside one second.
	natural := 0
	for round := 0; round < 200 && natural <= 4; round++ {
		auditFreshStart() // a fresh second after a long idle time: the rule is cold
		var admitted int32
		var wg sync.WaitGroup
		gate := make(chan struct{})
		for i := 0; i < callers; i++ {
			wg.Add(1)
			go func() {
				defer wg.Done()
				<-gate
				if e, b := api.Entry(res, api.WithTrafficType(base.Inbound)); b == nil {
					atomic.AddInt32(&admitted, 1)
					e.Exit()
				}
			}()
		}
		close(gate)
		wg.Wait()
		if int(admitted) > natural {
			natural = int(admitted)
		}
	}

	// (b) the same interleaving pinned down with a passive barrier between the flow slot and the statistic slots.
	auditFreshStart()
	barrier := &auditBarrierSlot{parties: callers, release: make(chan struct{})}
	chain := api.BuildDefaultSlotChain()
	chain.AddRuleCheckSlot(barrier)
	var admitted int32
	var wg sync.WaitGroup
	for i := 0; i < callers; i++ {
		wg.Add(1)
		go func() {
			defer wg.Done()
			if e, b := api.Entry(res, api.WithTrafficType(base.Inbound), api.WithSlotChain(chain)); b == nil {
				atomic.AddInt32(&admitted, 1)
				e.Exit()
			}
		}()
	}
	wg.Wait()

	if natural > 4 || admitted > 4 {
		t.Errorf("warm-up rule {threshold 4, period 10 s, cold factor 2}, resource idle, %d goroutines enter within the same (virtual) "+
			"millisecond: %d of them were admitted when merely released together (best of up to 200 rounds), %d when all of them pass the "+
			"flow check before the first pass is counted. The property demands that the admitted rate never exceeds the configured "+
			"threshold (4 per second) and starts no higher than about threshold/coldFactor (2 per second) after idle time.",
			callers, natural, admitted)
	}
}

// Finding 3: IsValidRule accepts the thresholds NaN and +Inf ("negative Threshold" is the only test, and
// NaN < 0 is false). The rule is loaded and its effective threshold is NaN / +Inf: nothing is ever rejected.
func TestAuditNonFiniteThresholdIsAcceptedAndAdmitsEverything(t *testing.T) {
	auditInit(t)
	defer flow.ClearRules()

	for i, th := range []float64{math.NaN(), math.Inf(1)} {
		for j, strategy := range []flow.TokenCalculateStrategy{flow.WarmUp, flow.Direct} {
			res := fmt.Sprintf("audit-c11-nonfinite-%d-%d", i, j)
			start := auditFreshStart()
			rule := &flow.Rule{Resource: res, TokenCalculateStrategy: strategy, ControlBehavior: flow.Reject,
				Threshold: th, WarmUpPeriodSec: 10, WarmUpColdFactor: 3}
			validErr := flow.IsValidRule(rule)
			if _, err := flow.LoadRules([]*flow.Rule{rule}); err != nil {
				t.Fatal(err)
			}
			loaded := len(flow.GetRulesOfResource(res))
			admitted := auditDemand(res, start, 1, 1000, 1)
			if validErr == nil && loaded == 1 {
				t.Errorf("%v rule with Threshold=%v: IsValidRule returned nil, the rule was loaded, and %d of 1000 single-token requests "+
					"offered within one second were admitted. The property demands that the effective threshold is always a finite "+
					"non-negative number (and that the admitted rate stays inside the configured envelope); a threshold that is not a "+
					"finite number has to be refused like a negative one.", strategy, th, admitted[0])
			}
		}
	}
}
