package hotspot

import (
	"testing"
)

// Finding 2 (14210d0): the rule-in-force table is rewritten WHILE a load is being built, before anything
// is published. A load that is aborted (the rule managers recover a panic of the build and return it as
// the error of the load; the previous rules stay in force) leaves the table rewritten:
//   - the deferred forgetRulesInForce of the aborted build drops the entries of controllers that are still
//     in force: a rule that was renamed by an earlier load goes by its OLD name again;
//   - setRuleInForce of the aborted build stays: a kept controller goes by the name of a load that failed.
//
// The getters and the block errors then speak of rules that are not the ones in force.
func TestReviewAbortedLoadRewritesTheRuleInForce(t *testing.T) {
	const res = "review-aborted-load"
	const failing ControlBehavior = 100
	if err := SetTrafficShapingGenerator(failing, func(r *Rule, _ *ParamsMetric) TrafficShapingController {
		panic("this behaviour cannot be built")
	}); err != nil {
		t.Fatal(err)
	}
	defer func() {
		_ = RemoveTrafficShapingGenerator(failing)
		_ = ClearRules()
	}()

	rule := func(id string) *Rule {
		return &Rule{ID: id, Resource: res, MetricType: QPS, ControlBehavior: Reject, ParamIndex: 0, Threshold: 10, DurationInSec: 1}
	}
	unbuildable := func() *Rule {
		return &Rule{ID: "p", Resource: res, MetricType: QPS, ControlBehavior: failing, ParamIndex: 1, Threshold: 10, DurationInSec: 1}
	}
	// loadedAsB loads the rule as "a" and then, unchanged, as "b": the controller is kept, the rule in force is "b".
	loadedAsB := func(t *testing.T) {
		_ = ClearRules()
		if _, err := LoadRules([]*Rule{rule("a")}); err != nil {
			t.Fatal(err)
		}
		if _, err := LoadRules([]*Rule{rule("b")}); err != nil {
			t.Fatal(err)
		}
		if got := GetRulesOfResource(res); len(got) != 1 || got[0].ID != "b" {
			t.Fatalf("precondition: expected the rule in force to be reported as b, got %+v", got)
		}
	}
	check := func(t *testing.T, err error) {
		if err == nil {
			t.Fatalf("precondition: the load was expected to fail")
		}
		got := GetRulesOfResource(res)
		if len(got) != 1 {
			t.Fatalf("a failed load must leave the previous rules in force: expected 1 rule, got %+v", got)
		}
		if got[0].ID != "b" {
			t.Errorf("LoadRules returned the error %q, so the previous rule list - one rule, loaded as \"b\" - is still in force; "+
				"GetRulesOfResource now reports it as %q (the aborted build has rewritten the rule-in-force table). "+
				"A load that fails should change nothing.", err, got[0].ID)
		}
	}

	t.Run("RenameOfAnEarlierLoadIsReverted", func(t *testing.T) {
		loadedAsB(t)
		// the first rule cannot be built; "b" is in the list again, unchanged
		_, err := LoadRules([]*Rule{unbuildable(), rule("b")})
		check(t, err) // reports "a", the name of two loads ago
	})
	t.Run("NameOfTheFailedLoadIsTakenOver", func(t *testing.T) {
		loadedAsB(t)
		// the rule comes as "c", and the rule listed after it cannot be built
		_, err := LoadRules([]*Rule{rule("c"), unbuildable()})
		check(t, err) // reports "c", the name of a load that never took effect
	})
}
