package iris

import (
	"errors"
	"net/http"
	"sync"
	"testing"

	sentinel "github.com/alibaba/sentinel-golang/api"
	"github.com/alibaba/sentinel-golang/core/base"
	"github.com/kataras/iris/v12"
	"github.com/kataras/iris/v12/httptest"
)

// reviewRecorder is a statistic slot that notes the error every completed entry carries.
type reviewRecorder struct {
	mu   sync.Mutex
	errs map[string][]error
}

func (r *reviewRecorder) Order() uint32                                       { return 90000 }
func (r *reviewRecorder) OnEntryPassed(_ *base.EntryContext)                  {}
func (r *reviewRecorder) OnEntryBlocked(*base.EntryContext, *base.BlockError) {}
func (r *reviewRecorder) OnCompleted(ctx *base.EntryContext) {
	r.mu.Lock()
	defer r.mu.Unlock()
	r.errs[ctx.Resource.Name()] = append(r.errs[ctx.Resource.Name()], ctx.Err())
}

func (r *reviewRecorder) completions(res string) []error {
	r.mu.Lock()
	defer r.mu.Unlock()
	return append([]error(nil), r.errs[res]...)
}

var (
	reviewRecorderOnce sync.Once
	reviewRec          = &reviewRecorder{errs: make(map[string][]error)}
)

// reviewFieldErrors is an error of a type that cannot be compared (a slice), like the validation
// error lists of the common validator packages.
type reviewFieldErrors []string

func (e reviewFieldErrors) Error() string { return "invalid fields" }

// Finding 1 (9cf2972): "set after the entry was requested" is decided by comparing the error slot
// before and after the handler chain by identity. That is not what the commit promises in two cases.
func TestReviewIrisErrorSlotIdentity(t *testing.T) {
	if err := sentinel.InitDefault(); err != nil {
		t.Fatalf("Unexpected error: %+v", err)
	}
	reviewRecorderOnce.Do(func() { sentinel.GlobalSlotChain().AddStatSlot(reviewRec) })

	// (a) An earlier middleware leaves a soft failure and goes on; the route's handler then FAILS and
	// reports the very same error value (a package level error variable). The failure of the handler is
	// an error "attached after the entry was requested" and was traced before 9cf2972.
	t.Run("SameValueSetAgainByTheFailingHandler", func(t *testing.T) {
		errUnavailable := errors.New("backend unavailable")
		router := iris.New()
		router.Use(func(ctx iris.Context) {
			ctx.SetErr(errUnavailable) // soft failure of an optional lookup, the request goes on
			ctx.Next()
		})
		router.Use(SentinelMiddleware())
		router.Get("/review-same", func(ctx iris.Context) {
			ctx.SetErr(errUnavailable) // the handler itself fails now
			ctx.StatusCode(http.StatusBadGateway)
		})
		httptest.New(t, router).GET("/review-same").Expect().Status(http.StatusBadGateway)

		got := reviewRec.completions("GET:/review-same")
		if len(got) != 1 {
			t.Fatalf("expected exactly one completed entry of GET:/review-same, got %d", len(got))
		}
		if got[0] == nil {
			t.Errorf("the handler failed and called ctx.SetErr(%q) after the entry was requested, but the entry "+
				"completed WITHOUT an error (the error equals the one an earlier middleware had left in the slot, "+
				"so the adapter took it for the old one); the failure of the handler should be traced", errUnavailable)
		}
	})

	// (b) The earlier middleware leaves an error of a type that cannot be compared; the route is healthy
	// and never touches the slot. The comparison panics, the panic is swallowed as "not the same", and the
	// stale error is traced to every entry of the healthy route - the defect 9cf2972 set out to repair.
	t.Run("UncomparableErrorLeftByAnEarlierMiddleware", func(t *testing.T) {
		router := iris.New()
		router.Use(func(ctx iris.Context) {
			ctx.SetErr(reviewFieldErrors{"optional header X-Trace malformed"}) // soft failure, goes on
			ctx.Next()
		})
		router.Use(SentinelMiddleware())
		router.Get("/review-uncomparable", func(ctx iris.Context) {
			ctx.StatusCode(http.StatusOK)
			_, _ = ctx.WriteString("fine")
		})
		httptest.New(t, router).GET("/review-uncomparable").Expect().Status(http.StatusOK)

		got := reviewRec.completions("GET:/review-uncomparable")
		if len(got) != 1 {
			t.Fatalf("expected exactly one completed entry of GET:/review-uncomparable, got %d", len(got))
		}
		if got[0] != nil {
			t.Errorf("the handler of a healthy route set no error, but its entry completed with the error %q that a "+
				"middleware in front of the adapter had attached before the entry existed; only an error attached "+
				"after the entry was requested should be traced", got[0])
		}
	})
}
