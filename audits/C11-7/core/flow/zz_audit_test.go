package flow_test

import (
	"fmt"
	"sync"
	"testing"
	"time"

	"github.com/alibaba/sentinel-golang/api"
	"github.com/alibaba/sentinel-golang/core/config"
	"github.com/alibaba/sentinel-golang/core/flow"
	"github.com/alibaba/sentinel-golang/logging"
	"github.com/alibaba/sentinel-golang/util"
)

// auditClock is a virtual clock: it stands still unless the test (or a Sleep of the library) moves it.
type auditClock struct {
	mu sync.Mutex
	ns int64
}

func (c *auditClock) Now() time.Time { c.mu.Lock(); defer c.mu.Unlock(); return time.Unix(0, c.ns) }
func (c *auditClock) Sleep(d time.Duration) {
	if d > 0 {
		c.mu.Lock()
		c.ns += int64(d)
		c.mu.Unlock()
	}
}
func (c *auditClock) CurrentTimeMillis() uint64 {
	c.mu.Lock()
	defer c.mu.Unlock()
	return uint64(c.ns / 1e6)
}
func (c *auditClock) CurrentTimeNano() uint64 { c.mu.Lock(); defer c.mu.Unlock(); return uint64(c.ns) }
func (c *auditClock) setMs(ms int64)          { c.mu.Lock(); c.ns = ms * 1e6; c.mu.Unlock() }

var auditInitOnce sync.Once

func auditInit(t *testing.T) {
	auditInitOnce.Do(func() {
		conf := config.NewDefaultConfig()
		conf.Sentinel.Log.Logger = logging.NewConsoleLogger()
		conf.Sentinel.Log.Metric.FlushIntervalSec = 0
		conf.Sentinel.Stat.System.CollectIntervalMs = 0
		conf.Sentinel.Stat.System.CollectMemoryIntervalMs = 0
		conf.Sentinel.Stat.System.CollectCpuIntervalMs = 0
		conf.Sentinel.Stat.System.CollectLoadIntervalMs = 0
		if err := api.InitWithConfig(conf); err != nil {
			t.Fatal(err)
		}
		logging.ResetGlobalLoggerLevel(logging.ErrorLevel)
	})
}

// auditTry makes one single-token request and says whether it was admitted.
func auditTry(res string) bool {
	e, b := api.Entry(res)
	if b != nil {
		return false
	}
	e.Exit()
	return true
}

// auditSaturate offers one single-token request every stepMs during `seconds` seconds that start at
// startMs, and returns how many were admitted in each of these seconds.
func auditSaturate(clk *auditClock, res string, startMs int64, seconds int, stepMs int64) []int {
	adm := make([]int, seconds)
	for s := 0; s < seconds; s++ {
		for ms := int64(0); ms < 1000; ms += stepMs {
			clk.setMs(startMs + int64(s)*1000 + ms)
			if auditTry(res) {
				adm[s]++
			}
		}
	}
	return adm
}

// Finding 1. A warm-up rule on a resource that has never seen a request must start at about
// threshold/coldFactor. Whether it does depends on the VALUE of the clock: the calculator is born with an
// empty bucket (= hot) and lastFilledTime 0 and counts on the first synchronisation to fill the bucket with
// "the time since 0" x threshold. With a clock that is younger than the cool-down time (a virtual clock that
// starts at or near 0) the bucket is not filled and the rule starts at the full threshold.
func TestAuditFreshWarmUpRuleStartsHotOnYoungClock(t *testing.T) {
	auditInit(t)
	clk := &auditClock{}
	util.SetClock(clk)
	defer util.SetClock(util.NewRealClock())

	newRule := func(res string) *flow.Rule {
		return &flow.Rule{Resource: res, TokenCalculateStrategy: flow.WarmUp, ControlBehavior: flow.Reject,
			Threshold: 100, WarmUpPeriodSec: 10, WarmUpColdFactor: 3}
	}
	const coldBound = 34 // threshold/coldFactor = 33.3, rounded up

	// control: the same rule, the same demand, an ordinary (large) clock value: 33 in the first second
	clk.setMs(1700000000000)
	if _, err := flow.LoadRules([]*flow.Rule{newRule("audit-young-clock-control")}); err != nil {
		t.Fatal(err)
	}
	control := auditSaturate(clk, "audit-young-clock-control", 1700000000000, 3, 2)
	if control[0] > coldBound {
		t.Fatalf("control run (clock at 1.7e12 ms) admitted %v", control)
	}

	for _, startMs := range []int64{0, 3000} {
		res := fmt.Sprintf("audit-young-clock-%d", startMs)
		clk.setMs(startMs)
		if _, err := flow.LoadRules([]*flow.Rule{newRule(res)}); err != nil {
			t.Fatal(err)
		}
		got := auditSaturate(clk, res, startMs, 3, 2)
		if got[0] > coldBound {
			t.Errorf("virtual clock starting at %d ms: a freshly loaded warm-up rule {Threshold 100, WarmUpPeriodSec 10, WarmUpColdFactor 3} "+
				"on a resource that never had a request admitted %v in its first seconds (with the clock at 1.7e12 ms the same rule and demand give %v); "+
				"the property demands a start no higher than about threshold/coldFactor = 33 after the resource has been idle",
				startMs, got, control)
		}
	}
}

// Finding 2. The threshold of a warm-up rule is lowered in the rule object that was loaded and the rules are
// loaded again. The rule manager compares the new list with pointers to the very objects the caller holds,
// finds "no change" (or, when another rule of the list did change, finds the controller's rule "equal" to
// itself and keeps the old calculator): the library goes on admitting the old threshold while its own getter
// reports the new one.
func TestAuditWarmUpThresholdLoweredInLoadedRuleIsNeverEnforced(t *testing.T) {
	auditInit(t)
	clk := &auditClock{}
	base := int64(1700000000000)
	clk.setMs(base)
	util.SetClock(clk)
	defer util.SetClock(util.NewRealClock())

	const res = "audit-inplace"
	r := &flow.Rule{Resource: res, TokenCalculateStrategy: flow.WarmUp, ControlBehavior: flow.Reject,
		Threshold: 100, WarmUpPeriodSec: 2, WarmUpColdFactor: 2}
	other := &flow.Rule{Resource: "audit-inplace-other", Threshold: 5}
	if _, err := flow.LoadRules([]*flow.Rule{r, other}); err != nil {
		t.Fatal(err)
	}

	// (a) only the threshold changes
	r.Threshold = 10
	loaded, err := flow.LoadRules([]*flow.Rule{r, other})
	if err != nil {
		t.Fatal(err)
	}
	reported := flow.GetRulesOfResource(res)
	if len(reported) != 1 {
		t.Fatalf("rules of %s: %v", res, reported)
	}
	admA := auditSaturate(clk, res, base+10000, 8, 2)

	// (b) another rule of the list changes as well, so that the load is certainly carried out
	other2 := &flow.Rule{Resource: "audit-inplace-other", Threshold: 6}
	loadedB, err := flow.LoadRules([]*flow.Rule{r, other2})
	if err != nil {
		t.Fatal(err)
	}
	reportedB := flow.GetRulesOfResource(res)
	admB := auditSaturate(clk, res, base+30000, 8, 2)

	max := func(xs []int) int {
		m := 0
		for _, x := range xs {
			if x > m {
				m = x
			}
		}
		return m
	}
	if float64(max(admA)) > reported[0].Threshold {
		t.Errorf("(a) threshold of the loaded warm-up rule lowered 100 -> 10, LoadRules returned %v: the library reports Threshold %v for the resource "+
			"but admitted per second %v; the property demands that the admitted rate never exceeds the configured threshold",
			loaded, reported[0].Threshold, admA)
	}
	if float64(max(admB)) > reportedB[0].Threshold {
		t.Errorf("(b) the same, loaded together with another rule that changed (LoadRules returned %v, so the load was carried out): "+
			"the library reports Threshold %v but admitted per second %v", loadedB, reportedB[0].Threshold, admB)
	}
}
