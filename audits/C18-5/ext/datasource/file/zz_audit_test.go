package file

import (
	"fmt"
	"os"
	"path/filepath"
	"sort"
	"sync/atomic"
	"testing"
	"time"

	"github.com/alibaba/sentinel-golang/core/flow"
	"github.com/alibaba/sentinel-golang/core/system"
	"github.com/alibaba/sentinel-golang/ext/datasource"
)

func auditSystemRulesJSON(trigger int) []byte {
	return []byte(fmt.Sprintf(`[{"metricType":0,"triggerCount":%d,"strategy":0}]`, trigger))
}

// the trigger counts of the system rules in force, sorted
func auditSystemRulesInForce() string {
	out := make([]string, 0)
	for _, r := range system.GetRules() {
		out = append(out, fmt.Sprintf("%v", r.TriggerCount))
	}
	sort.Strings(out)
	return fmt.Sprint(out)
}

func auditWaitForSystemRules(want string, d time.Duration) bool {
	deadline := time.Now().Add(d)
	for time.Now().Before(deadline) {
		if auditSystemRulesInForce() == want {
			return true
		}
		time.Sleep(10 * time.Millisecond)
	}
	return auditSystemRulesInForce() == want
}

// Finding 1.
// The rules file is rotated the way many writers (and editors) do it: move the old file aside as a
// backup, write the new file under the old name, delete the backup. The datasource follows the move
// correctly (it watches the new file and loads its rules) - and then the deletion of the BACKUP, which
// is announced for the watch of the old inode, is taken for the removal of the rules file: the rules
// just loaded are cleared and the datasource shuts down, while the file holds a valid rule list.
func TestAuditStaleRemoveEventOfTheBackupWipesTheRulesOfTheNewFile(t *testing.T) {
	_ = system.ClearRules()
	defer func() { _ = system.ClearRules() }()

	dir, err := os.MkdirTemp(".", "zz_audit_")
	if err != nil {
		t.Fatal(err)
	}
	defer os.RemoveAll(dir)
	path := filepath.Join(dir, "system_rules.json")
	backup := filepath.Join(dir, "system_rules.json.bak")
	if err := os.WriteFile(path, auditSystemRulesJSON(1), 0644); err != nil {
		t.Fatal(err)
	}

	ds := NewFileDataSource(path, datasource.NewSystemRulesHandler(datasource.SystemRuleJsonArrayParser))
	if err := ds.Initialize(); err != nil {
		t.Fatal(err)
	}
	if !auditWaitForSystemRules("[1]", 2*time.Second) {
		t.Fatalf("precondition: the initial file content [1] is not in force: %s", auditSystemRulesInForce())
	}

	// rotate: backup, new file, drop the backup
	if err := os.Rename(path, backup); err != nil {
		t.Fatal(err)
	}
	if err := os.WriteFile(path, auditSystemRulesJSON(2), 0644); err != nil {
		t.Fatal(err)
	}
	if err := os.Remove(backup); err != nil {
		t.Fatal(err)
	}

	// let the datasource work through all the events of the rotation
	time.Sleep(1500 * time.Millisecond)
	content, _ := os.ReadFile(path)
	if got := auditSystemRulesInForce(); got != "[2]" {
		t.Errorf("after 'mv rules rules.bak; write rules; rm rules.bak' the file holds %s but the system rules in force are %s (trigger counts); "+
			"the property demands that the file datasource converges to the file's current content after each write "+
			"(the file was never absent after the new content was written, nothing may clear its rules)", content, got)
	}

	// and the datasource is gone: a later plain write is not followed either
	if err := os.WriteFile(path, auditSystemRulesJSON(3), 0644); err != nil {
		t.Fatal(err)
	}
	if !auditWaitForSystemRules("[3]", 2*time.Second) {
		t.Errorf("a later plain write of [3] to the rules file is not followed: rules in force %s; "+
			"the property demands convergence to the file's current content after each write", auditSystemRulesInForce())
	}
}

// Finding 2.
// DefaultPropertyHandler.Handle first records the payload as "the last one applied" (isPropertyConsistent)
// and only then applies it (updater), with nothing that makes the two steps one. Two deliveries that
// overlap (the initial read of a datasource and its first change notification, two datasources that share a
// handler, a caller of Base.Handle next to the watcher goroutine) can interleave as
//
//	A: record v1 | B: record v2, apply v2 | A: apply v1
//
// and leave v1 in force while the handler believes v2 is. From then on every delivery of v2 - the value the
// source really has - is dropped as a repetition.
// The gate in the updater only pins the interleaving that the scheduler is free to produce by itself.
func TestAuditOverlappingDeliveriesPinAStaleRuleList(t *testing.T) {
	const res = "audit-c18-overlap"
	_ = flow.ClearRules()
	defer func() { _ = flow.ClearRules() }()

	v1 := []byte(`[{"resource":"` + res + `","threshold":1}]`)
	v2 := []byte(`[{"resource":"` + res + `","threshold":2}]`)

	entered := make(chan struct{})
	gate := make(chan struct{})
	var first int32 = 1
	updater := func(data interface{}) error {
		if atomic.CompareAndSwapInt32(&first, 1, 0) {
			// delivery A (v1) is between "recorded" and "applied"
			close(entered)
			<-gate
		}
		return datasource.FlowRulesUpdater(data)
	}
	h := datasource.NewDefaultPropertyHandler(datasource.FlowRuleJsonArrayParser, updater)

	doneA := make(chan error, 1)
	go func() { doneA <- h.Handle(v1) }()
	<-entered
	if err := h.Handle(v2); err != nil { // delivery B, start to end
		t.Fatal(err)
	}
	close(gate)
	if err := <-doneA; err != nil {
		t.Fatal(err)
	}

	// Everything is quiet now. The source announces its current value once more (re-sync, reconnect, touch).
	if err := h.Handle(v2); err != nil {
		t.Fatal(err)
	}
	rules := flow.GetRulesOfResource(res)
	if len(rules) != 1 || rules[0].Threshold != 2 {
		t.Errorf("payload %s was delivered (twice, the second time alone and after all other deliveries had returned) and Handle returned nil, "+
			"but the flow rules in force are %+v (threshold 1 is the payload delivered BEFORE it); "+
			"the property demands that a payload that decodes to a rule list results in exactly that list's valid rules being in force - "+
			"a repetition may only be a no-op when the repeated list is the one in force", v2, rules)
	}
}
