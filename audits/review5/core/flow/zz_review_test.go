package flow_test

// Review of the "fix:" commits 0b24155, 6a1e8ff and 5e9c624 - see REVIEW.md at the root of the repository.
// Every test here FAILS on the current code and shows one finding.

import (
	"fmt"
	"sort"
	"sync"
	"testing"
	"time"

	sentinel "github.com/alibaba/sentinel-golang/api"
	"github.com/alibaba/sentinel-golang/core/config"
	"github.com/alibaba/sentinel-golang/core/flow"
	"github.com/alibaba/sentinel-golang/util"
)

// reviewClock is a clock that moves only when it is told to (Sleep moves it, nothing blocks).
type reviewClock struct {
	mu  sync.Mutex
	now time.Time
}

func (c *reviewClock) Now() time.Time {
	c.mu.Lock()
	defer c.mu.Unlock()
	return c.now
}

func (c *reviewClock) Sleep(d time.Duration) {
	if d <= 0 {
		return
	}
	c.mu.Lock()
	c.now = c.now.Add(d)
	c.mu.Unlock()
}

func (c *reviewClock) CurrentTimeMillis() uint64 { return uint64(c.Now().UnixNano()) / 1e6 }
func (c *reviewClock) CurrentTimeNano() uint64   { return uint64(c.Now().UnixNano()) }

// useReviewClock installs a review clock that starts on a whole second and returns it with the function
// that puts the previous clock back.
func useReviewClock() (*reviewClock, func()) {
	prev := util.CurrentClock()
	clk := &reviewClock{now: time.Unix(1700000000, 0)}
	util.SetClock(clk)
	return clk, func() { util.SetClock(prev) }
}

// lowTrafficThenBurst loads rule for res, offers `seconds` seconds of low traffic - every stepMs one request
// of `batch` tokens - and then one second of saturating single-token demand (one request per millisecond).
// It returns the number of low-traffic requests that were rejected and the tokens admitted in the burst second.
func lowTrafficThenBurst(t *testing.T, clk *reviewClock, rule *flow.Rule, seconds int, stepMs int, batch uint32) (rejected int, burst int) {
	t.Helper()
	res := rule.Resource
	if _, err := flow.LoadRulesOfResource(res, []*flow.Rule{rule}); err != nil {
		t.Fatalf("loading the rule failed: %v", err)
	}
	defer func() { _ = flow.ClearRulesOfResource(res) }()
	for s := 0; s < seconds; s++ {
		for ms := 0; ms < 1000; ms += stepMs {
			if e, b := sentinel.Entry(res, sentinel.WithBatchCount(batch)); b == nil {
				e.Exit()
			} else {
				rejected++
			}
			clk.Sleep(time.Duration(stepMs) * time.Millisecond)
		}
	}
	for ms := 0; ms < 1000; ms++ {
		if e, b := sentinel.Entry(res); b == nil {
			burst++
			e.Exit()
		}
		clk.Sleep(time.Millisecond)
	}
	return rejected, burst
}

// Finding 1 (commit 0b24155): a warm-up rule (threshold 100/s, cold factor 3, i.e. a cold rate of 33/s) sees
// 20 tokens per second for two minutes - 60 % of its cold rate, nothing is ever rejected - and then a burst.
// A rule that has only seen low traffic is cold and must admit the burst at its cold rate. It does when the
// 20 tokens arrive as 20 single-token requests. When they arrive as ONE request of 20 tokens per second the
// rule warms up and the burst gets the full threshold.
func TestReviewWarmUpLowTrafficOfMultiTokenRequests(t *testing.T) {
	clk, restore := useReviewClock()
	defer restore()

	newRule := func(res string) *flow.Rule {
		return &flow.Rule{Resource: res, TokenCalculateStrategy: flow.WarmUp, ControlBehavior: flow.Reject,
			Threshold: 100, WarmUpPeriodSec: 10, WarmUpColdFactor: 3}
	}
	const coldRateWithSlack = 40 // the cold rate is 100/3 = 33 tokens per second

	rejected, burst := lowTrafficThenBurst(t, clk, newRule("review-warmup-low-single"), 120, 50, 1)
	if rejected != 0 || burst > coldRateWithSlack {
		t.Fatalf("control (20 single-token requests per second): %d rejected, burst second admitted %d, expected 0 and about 33", rejected, burst)
	}

	rejected, burst = lowTrafficThenBurst(t, clk, newRule("review-warmup-low-multi"), 120, 1000, 20)
	if rejected != 0 {
		t.Fatalf("the low traffic itself was rejected %d times, the scenario is not the intended one", rejected)
	}
	if burst > coldRateWithSlack {
		t.Errorf("after 120 s of 20 tokens/s (one request of 20 tokens per second, none rejected, 60 %% of the cold rate of 33/s) "+
			"the first second of a burst admitted %d tokens; the rule has only seen low traffic, it is cold and should admit about 33 "+
			"(as it does when the same 20 tokens/s arrive as single-token requests)", burst)
	}
}

// Finding 2 (commit 6a1e8ff): the scenario of the commit message. Rule "a" is renamed to "b" (nothing else
// changes) and a later load brings a new, different rule under the old name "a". The matching now knows that
// the kept controller stands for "b" - but the getters still read the ID from the rule object that stayed in
// the controller: the renamed rule is reported as "a", after the later load both rules are reported as "a",
// the ID "b" that was loaded does not exist for GetRules / GetRulesOfResource (nor for the rule in a BlockError).
func TestReviewRenamedRuleIsReportedUnderTheIDItWasLoadedWith(t *testing.T) {
	const res = "review-renamed-rule"
	defer func() { _ = flow.ClearRulesOfResource(res) }()

	if _, err := flow.LoadRulesOfResource(res, []*flow.Rule{{ID: "a", Resource: res, Threshold: 10}}); err != nil {
		t.Fatal(err)
	}
	// "a" is renamed to "b", nothing else changes: the controller, and the rule object in it, stay
	if _, err := flow.LoadRulesOfResource(res, []*flow.Rule{{ID: "b", Resource: res, Threshold: 10}}); err != nil {
		t.Fatal(err)
	}
	for _, r := range flow.GetRulesOfResource(res) {
		if r.ID != "b" {
			t.Errorf("loaded the rule \"b\" (threshold 10), GetRulesOfResource reports it as %q", r.ID)
		}
	}
	// a later load: "b" unchanged, and a new rule under the old name
	if _, err := flow.LoadRulesOfResource(res, []*flow.Rule{
		{ID: "b", Resource: res, Threshold: 10},
		{ID: "a", Resource: res, Threshold: 20},
	}); err != nil {
		t.Fatal(err)
	}
	got := make([]string, 0, 2)
	for _, r := range flow.GetRulesOfResource(res) {
		got = append(got, fmt.Sprintf("%s(threshold %v)", r.ID, r.Threshold))
	}
	sort.Strings(got)
	want := []string{"a(threshold 20)", "b(threshold 10)"}
	if fmt.Sprint(got) != fmt.Sprint(want) {
		t.Errorf("loaded the rules %v, GetRulesOfResource reports %v: the renamed rule still goes by its old ID for the getters "+
			"(two rules with the ID \"a\", none with \"b\"), while the rule matching of later loads takes it for \"b\"", want, got)
	}
}

// Finding 3 (commit 5e9c624): the process is configured with a default statistic interval of 2 s. A warm-up
// rule WITHOUT an interval of its own and with the Throttling behaviour (threshold 100, cold factor 3) is
// still paced per second by the throttling checker (a rule without StatIntervalInMs is a rule per second
// there), i.e. its cold rate is 33 per second. Since 5e9c624 the warm-up bucket of such a rule works per
// 2 s: the low-traffic bound is 33 per TWO seconds. 20 requests per second - 60 % of the cold rate, nothing
// is rejected - count as 40 per interval, i.e. as traffic at the limit: the rule warms up and a burst gets
// about the full rate. (With the default interval of 1 s the same rule stays cold under the same traffic.)
func TestReviewWarmUpThrottlingRuleUnderConfiguredDefaultInterval(t *testing.T) {
	clk, restore := useReviewClock()
	defer restore()

	cfg := config.NewDefaultConfig()
	cfg.Sentinel.Stat.MetricStatisticIntervalMs = 2000
	cfg.Sentinel.Stat.MetricStatisticSampleCount = 4
	if err := config.CheckValid(cfg); err != nil {
		t.Fatalf("the configuration of the scenario is not valid: %v", err)
	}
	config.ResetGlobalConfig(cfg)
	defer config.ResetGlobalConfig(config.NewDefaultConfig())

	rule := &flow.Rule{Resource: "review-warmup-throttling-2s-default", TokenCalculateStrategy: flow.WarmUp, ControlBehavior: flow.Throttling,
		Threshold: 100, WarmUpPeriodSec: 10, WarmUpColdFactor: 3}
	rejected, burst := lowTrafficThenBurst(t, clk, rule, 120, 50, 1)
	if rejected != 0 {
		t.Fatalf("the low traffic itself was rejected %d times, the scenario is not the intended one", rejected)
	}
	if burst > 40 {
		t.Errorf("default statistic interval 2 s, warm-up + throttling rule of 100/s with cold factor 3: after 120 s of 20 requests/s "+
			"(60 %% of the cold rate of 33/s, none rejected) the first second of a burst admitted %d requests; the rule is cold and should "+
			"admit about 33, as it does with the default interval of 1 s", burst)
	}
}
