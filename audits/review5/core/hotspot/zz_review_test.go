package hotspot_test

// Review of the "fix:" commit 6a1e8ff - see REVIEW.md at the root of the repository (finding 2; the flow
// variant of this test is core/flow/zz_review_test.go). The test FAILS on the current code.

import (
	"fmt"
	"sort"
	"testing"

	"github.com/alibaba/sentinel-golang/core/hotspot"
)

// Finding 2 (commit 6a1e8ff), hotspot variant: rule "a" is renamed to "b" (nothing else changes) and a later
// load brings a new rule under the old name. The rule matching takes the kept controller for "b", the getters
// still report the ID of the rule object that stayed in it.
func TestReviewRenamedHotspotRuleIsReportedUnderTheIDItWasLoadedWith(t *testing.T) {
	const res = "review-renamed-hotspot-rule"
	defer func() { _ = hotspot.ClearRulesOfResource(res) }()

	rule := func(id string, threshold int64) *hotspot.Rule {
		return &hotspot.Rule{ID: id, Resource: res, MetricType: hotspot.QPS, ControlBehavior: hotspot.Reject,
			ParamIndex: 0, Threshold: threshold, DurationInSec: 1}
	}
	for _, load := range [][]*hotspot.Rule{
		{rule("a", 10)},
		{rule("b", 10)},                // "a" renamed, nothing else changed
		{rule("b", 10), rule("a", 20)}, // a later load: "b" unchanged, a new rule under the old name
	} {
		if _, err := hotspot.LoadRulesOfResource(res, load); err != nil {
			t.Fatal(err)
		}
	}
	got := make([]string, 0, 2)
	for _, r := range hotspot.GetRulesOfResource(res) {
		got = append(got, fmt.Sprintf("%s(threshold %d)", r.ID, r.Threshold))
	}
	sort.Strings(got)
	want := []string{"a(threshold 20)", "b(threshold 10)"}
	if fmt.Sprint(got) != fmt.Sprint(want) {
		t.Errorf("loaded the rules %v, GetRulesOfResource reports %v: the renamed rule still goes by its old ID for the getters "+
			"(two rules with the ID \"a\", none with \"b\"), while the rule matching of later loads takes it for \"b\"", want, got)
	}
}
