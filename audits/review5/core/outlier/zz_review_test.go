package outlier

// Review of the "fix:" commit f869038 - see REVIEW.md at the root of the repository.
// The test FAILS on the current code and shows the finding.

import (
	"testing"

	"github.com/alibaba/sentinel-golang/core/circuitbreaker"
)

// Finding 4 (commit f869038, same defect in another module): f869038 made hotspot.GetRules copy the part of a
// rule that the struct copy shares with the rule in force (the SpecificItems map). outlier.GetRules makes the
// same promise ("returns all the rules based on copy. It doesn't take effect for outlier ejection module if user
// changes the rule") and has the same hole: outlier.Rule embeds a *circuitbreaker.Rule, the struct copy shares
// it, and that object is the rule in force - the node breakers of the resource are built from it. Editing the
// "copy" changes the limits in force (and is an unsynchronised write against the requests that read the rule).
func TestReviewOutlierGetRulesHandsOutTheRuleInForce(t *testing.T) {
	const res = "review-outlier-getrules"
	defer func() { _ = ClearRuleOfResource(res) }()

	rule := &Rule{
		Rule: &circuitbreaker.Rule{
			Resource:         res,
			Strategy:         circuitbreaker.ErrorCount,
			RetryTimeoutMs:   3000,
			MinRequestAmount: 1,
			StatIntervalMs:   1000,
			Threshold:        10,
		},
		MaxEjectionPercent: 1.0,
		RecoveryIntervalMs: 2000,
	}
	if _, err := LoadRuleOfResource(res, rule); err != nil {
		t.Fatalf("loading the rule failed: %v", err)
	}

	// a caller edits what GetRules promises to be a copy
	for _, r := range GetRules() {
		if r.Resource == res {
			r.Threshold = 1
			r.RetryTimeoutMs = 1
		}
	}

	for _, r := range GetRules() {
		if r.Resource == res && r.Threshold != 10 {
			t.Errorf("the rule was loaded with an error-count threshold of 10; after a caller edited the copy GetRules returned, "+
				"GetRules reports a threshold of %v: the 'copy' shares the embedded *circuitbreaker.Rule with the rule in force", r.Threshold)
		}
	}
	// and the edit is in force: the breaker of a node that shows up now is built from the edited rule
	addNodeBreakerOfResource(res, "review-node-1")
	cb := getNodeBreakersOfResource(res)["review-node-1"]
	if cb == nil {
		t.Fatal("no breaker was built for the node")
	}
	if got := cb.BoundRule().Threshold; got != 10 {
		t.Errorf("the breaker of a node added after the edit ejects the node after %v error(s), RetryTimeoutMs %d; the rule in force is "+
			"threshold 10, RetryTimeoutMs 3000 - editing the result of GetRules must not take effect", got, cb.BoundRule().RetryTimeoutMs)
	}
}
