package hotspot

import (
	"math/rand"
	"testing"

	"github.com/alibaba/sentinel-golang/logging"
)

func randHsRule(rnd *rand.Rand, ids []string) *Rule {
	r := &Rule{Resource: "fz", ID: ids[rnd.Intn(len(ids))]}
	r.MetricType = MetricType(rnd.Intn(2))
	r.ControlBehavior = ControlBehavior(rnd.Intn(2))
	r.ParamIndex = rnd.Intn(2)
	r.Threshold = int64(rnd.Intn(3))
	r.MaxQueueingTimeMs = int64(rnd.Intn(2))
	r.BurstCount = int64(rnd.Intn(2))
	r.DurationInSec = int64(1 + rnd.Intn(2))
	r.ParamsMaxCapacity = int64(rnd.Intn(2) * 100)
	if rnd.Intn(2) == 0 {
		r.SpecificItems = map[interface{}]int64{"x": int64(rnd.Intn(2))}
	}
	return r
}

// TestAuditInvariantKeep is NOT a finding: it passes. It is the randomized check used during the audit: over random
// load sequences (whole-set and per-resource, shuffled order, duplicates of U under other IDs, other rules sharing
// fields or IDs) the unchanged rule U keeps its controller object and the modified rule M (same ID, statistic
// parameters unchanged) keeps its statistic object.
func TestAuditInvariantKeep(t *testing.T) {
	logging.ResetGlobalLoggerLevel(logging.ErrorLevel + 1)
	for seed := int64(0); seed < 5000; seed++ {
		rnd := rand.New(rand.NewSource(seed))
		ClearRules()
		ids := []string{"", "a", "b", "c", "u"}
		uid := []string{"u", ""}[rnd.Intn(2)]
		U := randHsRule(rnd, []string{uid})
		M := randHsRule(rnd, []string{"m"})
		var uTc, mTc TrafficShapingController
		for step := 0; step < 8; step++ {
			var list []*Rule
			n := rnd.Intn(4)
			for i := 0; i < n; i++ {
				o := randHsRule(rnd, ids)
				if rnd.Intn(3) == 0 {
					id := o.ID
					*o = *U
					o.ID = id
				} else if rnd.Intn(3) == 0 {
					id := o.ID
					*o = *M
					o.ID = id
				}
				if o.ID == uid && o.Equals(U) {
					o.ID = "a"
				}
				list = append(list, o)
			}
			uc := *U
			mc := *M
			if M.MetricType == Concurrency {
				mc.Threshold = int64(rnd.Intn(9))
				mc.ControlBehavior = ControlBehavior(rnd.Intn(2))
				mc.DurationInSec = int64(rnd.Intn(9))
			} else {
				mc.MaxQueueingTimeMs = int64(rnd.Intn(9))
			}
			list = append(list, &uc, &mc)
			rnd.Shuffle(len(list), func(i, j int) { list[i], list[j] = list[j], list[i] })
			var did bool
			if rnd.Intn(2) == 0 {
				did, _ = LoadRulesOfResource("fz", list)
			} else {
				did, _ = LoadRules(list)
			}
			if !did {
				continue
			}
			var nu, nm TrafficShapingController
			for _, tc := range getTrafficControllersFor("fz") {
				r := ruleInForceOf(tc)
				if r == &uc {
					nu = tc
				}
				if r == &mc {
					nm = tc
				}
			}
			if nu == nil || nm == nil {
				t.Fatalf("seed %d step %d: missing controller", seed, step)
			}
			if uTc != nil && nu != uTc {
				t.Fatalf("seed %d step %d: U controller replaced; U=%v list=%v", seed, step, U, list)
			}
			if mTc != nil && nm.BoundMetric() != mTc.BoundMetric() {
				t.Fatalf("seed %d step %d: M stat replaced; M=%v list=%v", seed, step, M, list)
			}
			uTc, mTc = nu, nm
		}
	}
	ClearRules()
}
