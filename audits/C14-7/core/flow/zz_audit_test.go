package flow

import (
	"math/rand"
	"testing"

	"github.com/alibaba/sentinel-golang/logging"
)

func randFlowRule(rnd *rand.Rand, ids []string) *Rule {
	r := &Rule{Resource: "fz", ID: ids[rnd.Intn(len(ids))]}
	r.TokenCalculateStrategy = TokenCalculateStrategy(rnd.Intn(2))
	r.ControlBehavior = ControlBehavior(rnd.Intn(2))
	r.Threshold = float64(1 + rnd.Intn(2))
	r.StatIntervalInMs = []uint32{0, 1000, 20000, 30000}[rnd.Intn(4)]
	if rnd.Intn(3) == 0 {
		r.RelationStrategy = AssociatedResource
		r.RefResource = "ref"
	}
	r.MaxQueueingTimeMs = uint32(rnd.Intn(2))
	r.WarmUpPeriodSec = 10
	r.WarmUpColdFactor = 3
	return r
}

// TestAuditInvariantKeep is NOT a finding: it passes. It is the randomized check used during the audit: over random
// load sequences (whole-set and per-resource, shuffled order, duplicates of U under other IDs, other rules sharing
// fields or IDs) the unchanged rule U keeps its controller object and the modified rule M (same ID, statistic
// parameters unchanged) keeps its statistic object.
func TestAuditInvariantKeep(t *testing.T) {
	logging.ResetGlobalLoggerLevel(logging.ErrorLevel + 1)
	for seed := int64(0); seed < 5000; seed++ {
		rnd := rand.New(rand.NewSource(seed))
		ClearRules()
		ids := []string{"", "a", "b", "c", "u"}
		uid := []string{"u", ""}[rnd.Intn(2)]
		U := randFlowRule(rnd, []string{uid})
		M := randFlowRule(rnd, []string{"m"})
		var uTc, mTc *TrafficShapingController
		per := rnd.Intn(2) == 0
		for step := 0; step < 8; step++ {
			var list []*Rule
			n := rnd.Intn(4)
			for i := 0; i < n; i++ {
				o := randFlowRule(rnd, ids)
				if rnd.Intn(3) == 0 {
					id := o.ID
					*o = *U
					o.ID = id
					if uid == "" {
						if id == "" {
							o.ID = "a"
						}
					}
				} else if rnd.Intn(3) == 0 {
					id := o.ID
					*o = *M
					o.ID = id
				}
				if o.ID == uid && o.isEqualsTo(U) {
					o.ID = "a"
				}
				list = append(list, o)
			}
			uc := *U
			mc := *M
			mc.Threshold = float64(1 + rnd.Intn(50))
			mc.MaxQueueingTimeMs = uint32(rnd.Intn(5))
			mc.TokenCalculateStrategy = TokenCalculateStrategy(rnd.Intn(2))
			mc.ControlBehavior = ControlBehavior(rnd.Intn(2))
			mc.WarmUpPeriodSec = uint32(1 + rnd.Intn(5))
			list = append(list, &uc, &mc)
			rnd.Shuffle(len(list), func(i, j int) { list[i], list[j] = list[j], list[i] })
			var did bool
			if per {
				did, _ = LoadRulesOfResource("fz", list)
			} else {
				did, _ = LoadRules(list)
			}
			if !did {
				continue
			}
			var nu, nm *TrafficShapingController
			for _, tc := range getTrafficControllerListFor("fz") {
				r := ruleInForceOf(tc)
				if r == &uc {
					nu = tc
				}
				if r == &mc {
					nm = tc
				}
			}
			if nu == nil || nm == nil {
				t.Fatalf("seed %d step %d: missing controller", seed, step)
			}
			if uTc != nil && nu != uTc {
				t.Fatalf("seed %d step %d: U controller replaced; U=%v list=%v", seed, step, U, list)
			}
			if mTc != nil && mTc.rule.needStatistic() && mc.needStatistic() && (nm.boundStat.readOnlyMetric != mTc.boundStat.readOnlyMetric) && !mTc.boundStat.reuseResourceStat {
				t.Fatalf("seed %d step %d: M stat replaced; M=%v list=%v", seed, step, M, list)
			}
			uTc, mTc = nu, nm
		}
	}
	ClearRules()
}
