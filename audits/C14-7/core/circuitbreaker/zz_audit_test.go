package circuitbreaker

import (
	"math/rand"
	"testing"

	"github.com/alibaba/sentinel-golang/logging"
)

func randCbRule(rnd *rand.Rand, ids []string) *Rule {
	r := &Rule{Resource: "fz", Id: ids[rnd.Intn(len(ids))]}
	r.Strategy = Strategy(rnd.Intn(3))
	r.RetryTimeoutMs = uint32(1000 * (1 + rnd.Intn(2)))
	r.MinRequestAmount = uint64(rnd.Intn(2))
	r.StatIntervalMs = uint32(1000 * (1 + rnd.Intn(2)))
	r.StatSlidingWindowBucketCount = uint32(rnd.Intn(3))
	r.MaxAllowedRtMs = uint64(rnd.Intn(2))
	r.Threshold = float64(rnd.Intn(2))
	r.ProbeNum = uint64(rnd.Intn(2))
	return r
}

// TestAuditInvariantKeep is NOT a finding: it passes. It is the randomized check used during the audit: over random
// load sequences (whole-set and per-resource, shuffled order, duplicates of U under other IDs, other rules sharing
// fields or IDs) the unchanged rule U keeps its controller object and the modified rule M (same ID, statistic
// parameters unchanged) keeps its statistic object.
func TestAuditInvariantKeep(t *testing.T) {
	logging.ResetGlobalLoggerLevel(logging.ErrorLevel + 1)
	for seed := int64(0); seed < 5000; seed++ {
		rnd := rand.New(rand.NewSource(seed))
		ClearRules()
		ids := []string{"", "a", "b", "c", "u"}
		uid := []string{"u", ""}[rnd.Intn(2)]
		U := randCbRule(rnd, []string{uid})
		M := randCbRule(rnd, []string{"m"})
		var uTc, mTc CircuitBreaker
		for step := 0; step < 8; step++ {
			var list []*Rule
			n := rnd.Intn(4)
			for i := 0; i < n; i++ {
				o := randCbRule(rnd, ids)
				if rnd.Intn(3) == 0 {
					id := o.Id
					*o = *U
					o.Id = id
				} else if rnd.Intn(3) == 0 {
					id := o.Id
					*o = *M
					o.Id = id
				}
				if o.Id == uid && o.isEqualsTo(U) {
					o.Id = "a"
				}
				list = append(list, o)
			}
			uc := *U
			mc := *M
			mc.Threshold = float64(rnd.Intn(2))
			mc.RetryTimeoutMs = uint32(1 + rnd.Intn(5))
			mc.MinRequestAmount = uint64(rnd.Intn(5))
			mc.ProbeNum = uint64(rnd.Intn(5))
			list = append(list, &uc, &mc)
			rnd.Shuffle(len(list), func(i, j int) { list[i], list[j] = list[j], list[i] })
			var did bool
			if rnd.Intn(2) == 0 {
				did, _ = LoadRulesOfResource("fz", list)
			} else {
				did, _ = LoadRules(list)
			}
			if !did {
				continue
			}
			var nu, nm CircuitBreaker
			for _, tc := range getBreakersOfResource("fz") {
				r := ruleInForceOf(tc)
				if r == &uc {
					nu = tc
				}
				if r == &mc {
					nm = tc
				}
			}
			if nu == nil || nm == nil {
				t.Fatalf("seed %d step %d: missing controller", seed, step)
			}
			if uTc != nil && nu != uTc {
				t.Fatalf("seed %d step %d: U controller replaced; U=%v list=%v", seed, step, U, list)
			}
			if mTc != nil && nm.BoundStat() != mTc.BoundStat() {
				t.Fatalf("seed %d step %d: M stat replaced; M=%v list=%v", seed, step, M, list)
			}
			uTc, mTc = nu, nm
		}
	}
	ClearRules()
}
