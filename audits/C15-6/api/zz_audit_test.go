package api

import (
	"errors"
	"fmt"
	"strings"
	"sync"
	"testing"
	"time"

	"github.com/alibaba/sentinel-golang/core/base"
	"github.com/alibaba/sentinel-golang/core/circuitbreaker"
	"github.com/alibaba/sentinel-golang/core/flow"
	"github.com/alibaba/sentinel-golang/core/hotspot"
	"github.com/alibaba/sentinel-golang/logging"
)

// auditWindowLogger is a logging.Logger (installed with the public logging.ResetGlobalLogger) that holds the
// first Info line containing `marker` until a second goroutine has looked at the module through the public
// API. The rule managers write that line after they have published the new controllers; a logger that takes
// its time there (a file on a busy disk) is all it needs - the hook only makes the moment reproducible.
type auditWindowLogger struct {
	mu       sync.Mutex
	marker   string
	armed    bool
	inWindow chan struct{}
	resume   chan struct{}
}

func (l *auditWindowLogger) Debug(string, ...interface{})        {}
func (l *auditWindowLogger) DebugEnabled() bool                   { return false }
func (l *auditWindowLogger) Warn(string, ...interface{})         {}
func (l *auditWindowLogger) WarnEnabled() bool                    { return false }
func (l *auditWindowLogger) Error(error, string, ...interface{}) {}
func (l *auditWindowLogger) ErrorEnabled() bool                   { return false }
func (l *auditWindowLogger) InfoEnabled() bool                    { return true }
func (l *auditWindowLogger) Info(msg string, _ ...interface{}) {
	l.mu.Lock()
	hit := l.armed && strings.Contains(msg, l.marker)
	if hit {
		l.armed = false
	}
	l.mu.Unlock()
	if !hit {
		return
	}
	close(l.inWindow)
	select {
	case <-l.resume:
	case <-time.After(10 * time.Second):
	}
}

// observeDuringLoad runs load() and, while load() is writing its "rules loaded" log line, runs observe() on
// another goroutine - i.e. observe() is a caller of the public API that races with the rule update.
func observeDuringLoad(t *testing.T, marker string, load func(), observe func()) {
	t.Helper()
	prev := logging.GetGlobalLogger()
	l := &auditWindowLogger{marker: marker, armed: true, inWindow: make(chan struct{}), resume: make(chan struct{})}
	if err := logging.ResetGlobalLogger(l); err != nil {
		t.Fatal(err)
	}
	defer logging.ResetGlobalLogger(prev)

	observed := make(chan struct{})
	go func() {
		defer close(observed)
		select {
		case <-l.inWindow:
			observe()
		case <-time.After(10 * time.Second):
		}
		close(l.resume)
	}()
	load()
	<-observed
	select {
	case <-l.inWindow:
	default:
		t.Fatalf("the load never wrote a log line containing %q: the scenario was not exercised", marker)
	}
}

// Finding 1: a rule switch is published in two steps - first the new controller list (what decides the
// requests), and only after the "rules loaded" log line has been written the table that says which rule
// object a kept controller stands for (core/*/rule_in_force.go, applied by the deferred endRuleInForceEdits).
// In between, concurrent callers see a rule list that was never loaded (generation-1 rule next to a
// generation-2 rule), and a request that is decided by the NEW list is told it was blocked by a rule of the
// OLD list, which the very same moment is not among the rules the module reports as loaded.
func TestAuditRuleSwitchIsSeenHalfDone(t *testing.T) {
	if err := InitDefault(); err != nil {
		t.Fatal(err)
	}

	t.Run("flow/LoadRulesOfResource", func(t *testing.T) {
		const res = "audit-c15-6-flow"
		defer flow.ClearRules()
		if _, err := flow.LoadRules([]*flow.Rule{{ID: "gen1-a", Resource: res, Threshold: 0}}); err != nil {
			t.Fatal(err)
		}
		var ids []string
		var blockedBy string
		observeDuringLoad(t, "load resource level", func() {
			// generation 2: the same limit under a new ID, and a second rule
			_, _ = flow.LoadRulesOfResource(res, []*flow.Rule{
				{ID: "gen2-a", Resource: res, Threshold: 0},
				{ID: "gen2-b", Resource: res, Threshold: 5, StatIntervalInMs: 2000},
			})
		}, func() {
			for _, r := range flow.GetRulesOfResource(res) {
				ids = append(ids, r.ID)
			}
			e, b := Entry(res)
			if b == nil {
				e.Exit()
				blockedBy = "(passed)"
				return
			}
			if r, ok := b.TriggeredRule().(*flow.Rule); ok && r != nil {
				blockedBy = r.ID
			}
		})
		checkGeneration(t, "flow.GetRulesOfResource", ids, blockedBy)
	})

	t.Run("hotspot/LoadRulesOfResource", func(t *testing.T) {
		const res = "audit-c15-6-hotspot"
		defer hotspot.ClearRules()
		mk := func(id string, idx int, threshold int64) *hotspot.Rule {
			return &hotspot.Rule{ID: id, Resource: res, MetricType: hotspot.QPS, ControlBehavior: hotspot.Reject,
				ParamIndex: idx, Threshold: threshold, DurationInSec: 1}
		}
		if _, err := hotspot.LoadRules([]*hotspot.Rule{mk("gen1-a", 0, 0)}); err != nil {
			t.Fatal(err)
		}
		var ids []string
		var blockedBy string
		observeDuringLoad(t, "load resource level", func() {
			_, _ = hotspot.LoadRulesOfResource(res, []*hotspot.Rule{mk("gen2-a", 0, 0), mk("gen2-b", 1, 5)})
		}, func() {
			for _, r := range hotspot.GetRulesOfResource(res) {
				ids = append(ids, r.ID)
			}
			e, b := Entry(res, WithArgs("v0", "v1"))
			if b == nil {
				e.Exit()
				blockedBy = "(passed)"
				return
			}
			if r, ok := b.TriggeredRule().(*hotspot.Rule); ok && r != nil {
				blockedBy = r.ID
			}
		})
		checkGeneration(t, "hotspot.GetRulesOfResource", ids, blockedBy)
	})

	t.Run("circuitbreaker/LoadRules", func(t *testing.T) {
		const res = "audit-c15-6-cb"
		defer circuitbreaker.ClearRules()
		mk := func(id string, s circuitbreaker.Strategy, threshold float64) *circuitbreaker.Rule {
			return &circuitbreaker.Rule{Id: id, Resource: res, Strategy: s, Threshold: threshold,
				RetryTimeoutMs: 100000000, StatIntervalMs: 10000, MinRequestAmount: 1}
		}
		if _, err := circuitbreaker.LoadRules([]*circuitbreaker.Rule{mk("gen1-a", circuitbreaker.ErrorCount, 1)}); err != nil {
			t.Fatal(err)
		}
		// open the breaker
		e, b := Entry(res)
		if b != nil {
			t.Fatalf("setup: first request blocked: %v", b)
		}
		TraceError(e, errors.New("failure"))
		e.Exit()
		if _, b = Entry(res); b == nil {
			t.Fatal("setup: the breaker did not open")
		}

		var ids []string
		var blockedBy string
		observeDuringLoad(t, "rules were loaded", func() {
			_, _ = circuitbreaker.LoadRules([]*circuitbreaker.Rule{
				mk("gen2-a", circuitbreaker.ErrorCount, 1),
				mk("gen2-b", circuitbreaker.ErrorRatio, 0.9),
			})
		}, func() {
			for _, r := range circuitbreaker.GetRulesOfResource(res) {
				ids = append(ids, r.Id)
			}
			e, b := Entry(res)
			if b == nil {
				e.Exit()
				blockedBy = "(passed)"
				return
			}
			if r, ok := b.TriggeredRule().(*circuitbreaker.Rule); ok && r != nil {
				blockedBy = r.Id
			}
		})
		checkGeneration(t, "circuitbreaker.GetRulesOfResource", ids, blockedBy)
	})
}

// checkGeneration: what a caller racing with the switch from generation 1 ([gen1-a]) to generation 2
// ([gen2-a gen2-b]) saw must belong to ONE of the two generations.
func checkGeneration(t *testing.T, getter string, ids []string, blockedBy string) {
	t.Helper()
	gen := func(id string) string {
		if len(id) >= 4 {
			return id[:4]
		}
		return id
	}
	mixed := false
	for _, id := range ids {
		if gen(id) != gen(ids[0]) {
			mixed = true
		}
	}
	if mixed {
		t.Errorf("%s, called while the resource was switched from rule list [gen1-a] to [gen2-a gen2-b], returned %v: "+
			"a list that was never loaded (a rule of the old list next to a rule of the new one). "+
			"The property demands an atomic rule switch: a concurrent caller sees the old list or the new list.", getter, ids)
	}
	if len(ids) > 0 && blockedBy != "" && !contains(ids, blockedBy) {
		t.Errorf("a request racing with the switch from [gen1-a] to [gen2-a gen2-b] was blocked by rule %q while %s "+
			"reported %v as the rules of the resource at that moment: the request was decided by the new controller list but "+
			"attributed to a rule of the old list. The property demands that such a request is decided entirely by the old "+
			"or entirely by the new rule list.", blockedBy, getter, ids)
	}
	if t.Failed() {
		t.Log(fmt.Sprintf("observed in the window: rules=%v blockedBy=%q", ids, blockedBy))
	}
}

func contains(list []string, s string) bool {
	for _, x := range list {
		if x == s {
			return true
		}
	}
	return false
}

var _ = base.Inbound
