package circuitbreaker

import (
	"errors"
	"sync/atomic"
	"testing"
	"time"

	"github.com/alibaba/sentinel-golang/core/base"
	"github.com/alibaba/sentinel-golang/util"
)

// auditClock is a util.Clock whose reading is set by the test (it can also be set back, which
// util.MockClock cannot do).
type auditClock struct{ ms int64 }

func (c *auditClock) set(ms uint64) { atomic.StoreInt64(&c.ms, int64(ms)) }
func (c *auditClock) add(ms int64)  { atomic.AddInt64(&c.ms, ms) }
func (c *auditClock) Now() time.Time {
	return time.Unix(0, atomic.LoadInt64(&c.ms)*int64(time.Millisecond))
}
func (c *auditClock) Sleep(d time.Duration)     { atomic.AddInt64(&c.ms, int64(d/time.Millisecond)) }
func (c *auditClock) CurrentTimeMillis() uint64 { return uint64(atomic.LoadInt64(&c.ms)) }
func (c *auditClock) CurrentTimeNano() uint64 {
	return uint64(atomic.LoadInt64(&c.ms)) * uint64(time.Millisecond)
}

func auditStateName(s State) string { return (&s).String() }

// auditPanicSlot is a rule check slot that is ordered after the circuit breaker slot.
type auditPanicSlot struct{ armed bool }

func (s *auditPanicSlot) Order() uint32 { return RuleCheckSlotOrder + 1000 }
func (s *auditPanicSlot) Check(ctx *base.EntryContext) *base.TokenResult {
	if s.armed {
		panic("audit: rule check slot behind the circuit breaker slot fails")
	}
	return nil
}

// auditEntry does what api.Entry does with the given slot chain (api cannot be imported here:
// it imports this package).
func auditEntry(sc *base.SlotChain, resource string) (*base.SentinelEntry, *base.BlockError) {
	rw := base.NewResourceWrapper(resource, base.ResTypeCommon, base.Inbound)
	ctx := sc.GetPooledContext()
	ctx.Resource = rw
	ctx.Input.BatchCount = 1
	e := base.NewSentinelEntry(ctx, rw, sc)
	ctx.SetEntry(e)
	r := sc.Entry(ctx)
	if r == nil {
		// internal error in some slot: api.Entry passes the request
		return e, nil
	}
	if r.Status() == base.ResultStatusBlocked {
		blockErr := base.NewBlockErrorFromDeepCopy(r.BlockError())
		e.Exit()
		return nil, blockErr
	}
	return e, nil
}

func auditChain(extra ...base.RuleCheckSlot) *base.SlotChain {
	sc := base.NewSlotChain()
	sc.AddRuleCheckSlot(DefaultSlot)
	for _, s := range extra {
		sc.AddRuleCheckSlot(s)
	}
	sc.AddStatSlot(DefaultMetricStatSlot)
	return sc
}

// The probe completes while the clock reads less than it did when the statistic window was last
// used (the wall clock - util.CurrentTimeMillis is the wall clock - was stepped back while the
// probe was in flight). With a statistic window of more than one bucket the completion is then
// thrown away before the state is looked at: the breaker stays half-open with no probe in
// flight, and as half-open admits nobody and only a completion ends half-open, it never admits a
// request again.
func TestAuditProbeCompletionDroppedAfterClockStepBack(t *testing.T) {
	const res = "audit-c12-clock-step-back"
	const retryMs = 3000
	clock := &auditClock{}
	clock.set(1700000000000)
	util.SetClock(clock)
	defer util.SetClock(util.NewRealClock())
	defer ClearRulesOfResource(res)

	if _, err := LoadRulesOfResource(res, []*Rule{{
		Resource:                     res,
		Strategy:                     ErrorCount,
		RetryTimeoutMs:               retryMs,
		MinRequestAmount:             1,
		StatIntervalMs:               1000,
		StatSlidingWindowBucketCount: 2,
		Threshold:                    1,
	}}); err != nil {
		t.Fatal(err)
	}
	cb := getBreakersOfResource(res)[0]
	sc := auditChain()

	// one failing request opens the breaker
	e, b := auditEntry(sc, res)
	if b != nil {
		t.Fatal("setup: the first request must pass")
	}
	e.SetError(errors.New("biz error"))
	e.Exit()
	if cb.CurrentState() != Open {
		t.Fatalf("setup: breaker should be Open, is %v", cb.CurrentState())
	}

	// the retry timeout elapses, the probe is admitted
	clock.add(retryMs)
	probe, b := auditEntry(sc, res)
	if b != nil || cb.CurrentState() != HalfOpen {
		t.Fatalf("setup: the probe must be admitted and the breaker be HalfOpen, blocked=%v state=%v", b != nil, cb.CurrentState())
	}

	// the clock is stepped back by 5 s while the probe is in flight; the probe then completes successfully
	clock.add(-5000)
	probe.Exit()

	stateAfterProbe := cb.CurrentState()

	// from now on the clock only ticks forward; give the breaker ten retry timeouts and more
	admitted := 0
	for i := 0; i < 20; i++ {
		clock.add(retryMs)
		if e, b := auditEntry(sc, res); b == nil {
			admitted++
			e.Exit()
		}
	}
	if stateAfterProbe == HalfOpen || admitted == 0 {
		t.Fatalf("the only probe of this passage to half-open has completed (successfully), but the breaker is %s after it and admitted %d of 20 later requests spread over %d ms (state now %s): "+
			"the property lets a passage to half-open last \"until that probe completes\" - the completion must close (or re-open) the breaker, "+
			"instead it was dropped and the breaker blocks the resource for good",
			auditStateName(stateAfterProbe), admitted, 20*retryMs, auditStateName(cb.CurrentState()))
	}
}

// A request becomes the probe in the circuit breaker slot (Open -> HalfOpen) and a rule check
// slot that comes later in the chain panics. SlotChain.Entry recovers, the request is passed to
// the caller (api.Entry: "internal error in some slots, so just pass") and - since no statistic
// slot has seen it - its completion is not reported to any statistic slot either. The rollback
// hook of the probe does nothing because the request is not blocked. So the probe runs and
// exits, and the breaker is half-open without a probe for good.
func TestAuditProbePassedByInternalErrorNeverCompletes(t *testing.T) {
	const res = "audit-c12-probe-internal-error"
	const retryMs = 3000
	clock := &auditClock{}
	clock.set(1700000000000)
	util.SetClock(clock)
	defer util.SetClock(util.NewRealClock())
	defer ClearRulesOfResource(res)

	if _, err := LoadRulesOfResource(res, []*Rule{{
		Resource:         res,
		Strategy:         ErrorCount,
		RetryTimeoutMs:   retryMs,
		MinRequestAmount: 1,
		StatIntervalMs:   1000,
		Threshold:        1,
	}}); err != nil {
		t.Fatal(err)
	}
	cb := getBreakersOfResource(res)[0]
	later := &auditPanicSlot{}
	sc := auditChain(later)

	e, b := auditEntry(sc, res)
	if b != nil {
		t.Fatal("setup: the first request must pass")
	}
	e.SetError(errors.New("biz error"))
	e.Exit()
	if cb.CurrentState() != Open {
		t.Fatalf("setup: breaker should be Open, is %v", cb.CurrentState())
	}

	clock.add(retryMs)
	later.armed = true
	probe, b := auditEntry(sc, res)
	later.armed = false
	if b != nil || probe == nil || cb.CurrentState() != HalfOpen {
		t.Fatalf("setup: the probe must be handed to the caller and the breaker be HalfOpen, blocked=%v state=%v", b != nil, cb.CurrentState())
	}
	clock.add(10)
	probe.Exit()
	stateAfterProbe := cb.CurrentState()

	admitted := 0
	for i := 0; i < 20; i++ {
		clock.add(retryMs)
		if e, b := auditEntry(sc, res); b == nil {
			admitted++
			e.Exit()
		}
	}
	if stateAfterProbe == HalfOpen || admitted == 0 {
		t.Fatalf("the request that took the breaker to half-open was handed to the caller, ran and exited, but the breaker is %s after it and admitted %d of 20 later requests spread over %d ms (state now %s): "+
			"the property lets a passage to half-open last \"until that probe completes\" - the exit of the probe must end the passage (close, or re-open with a new retry timeout), "+
			"instead neither the completion nor the rollback hook acts and the breaker blocks the resource for good",
			auditStateName(stateAfterProbe), admitted, 20*retryMs, auditStateName(cb.CurrentState()))
	}
}
