package api

import (
	"errors"
	"sync"
	"sync/atomic"
	"testing"
	"time"

	"github.com/alibaba/sentinel-golang/core/base"
	"github.com/alibaba/sentinel-golang/core/flow"
	"github.com/alibaba/sentinel-golang/core/hotspot"
	"github.com/alibaba/sentinel-golang/core/stat"
	"github.com/alibaba/sentinel-golang/util"
)

// auditClock is a clock that stands still unless the test moves it.
type auditClock struct {
	ms int64
}

func (c *auditClock) Now() time.Time {
	return time.Unix(0, atomic.LoadInt64(&c.ms)*int64(time.Millisecond))
}
func (c *auditClock) Sleep(d time.Duration) {
	atomic.AddInt64(&c.ms, int64(d/time.Millisecond))
}
func (c *auditClock) CurrentTimeMillis() uint64 { return uint64(atomic.LoadInt64(&c.ms)) }
func (c *auditClock) CurrentTimeNano() uint64 {
	return uint64(atomic.LoadInt64(&c.ms)) * uint64(time.Millisecond)
}

// auditRecorder is a recording statistic slot.
type auditRecorder struct {
	passed, blocked, completed int64
}

func (r *auditRecorder) Order() uint32 { return 1 }
func (r *auditRecorder) OnEntryPassed(ctx *base.EntryContext) {
	atomic.AddInt64(&r.passed, int64(ctx.Input.BatchCount))
}
func (r *auditRecorder) OnEntryBlocked(ctx *base.EntryContext, _ *base.BlockError) {
	atomic.AddInt64(&r.blocked, int64(ctx.Input.BatchCount))
}
func (r *auditRecorder) OnCompleted(ctx *base.EntryContext) {
	atomic.AddInt64(&r.completed, 1)
}

// Finding 1: a request that is passed because rule evaluation panicked is handed to the caller as an
// entry to be exited, but it is counted nowhere: no pass tokens, no completion, on neither the
// resource nor the inbound total, and no statistic slot ever sees it.
func TestAuditPanicPassedRequestIsNotCounted(t *testing.T) {
	// far in the future, so that the statistic arrays created with the real clock accept the time
	clk := &auditClock{ms: time.Now().UnixNano()/int64(time.Millisecond) + 3600*1000}
	util.SetClock(clk)
	defer util.SetClock(util.NewRealClock())

	const res = "zz-audit-panic-pass"
	const n, batch = 10, 3

	if _, err := hotspot.LoadRulesOfResource(res, []*hotspot.Rule{{
		Resource: res, MetricType: hotspot.QPS, ControlBehavior: hotspot.Reject,
		ParamIndex: 0, Threshold: 1000000, DurationInSec: 1,
	}}); err != nil {
		t.Fatal(err)
	}
	defer hotspot.ClearRulesOfResource(res)
	// a flow rule that must let 5 tokens per second through and reject the rest
	if _, err := flow.LoadRulesOfResource(res, []*flow.Rule{{
		Resource: res, TokenCalculateStrategy: flow.Direct, ControlBehavior: flow.Reject,
		Threshold: 5, StatIntervalInMs: 1000,
	}}); err != nil {
		t.Fatal(err)
	}
	defer flow.ClearRulesOfResource(res)

	rec := &auditRecorder{}
	sc := BuildDefaultSlotChain()
	sc.AddStatSlot(rec)

	inPass0 := stat.InboundNode().GetSum(base.MetricEventPass)
	inBlock0 := stat.InboundNode().GetSum(base.MetricEventBlock)
	inComplete0 := stat.InboundNode().GetSum(base.MetricEventComplete)

	entries, blocks := 0, 0
	for i := 0; i < n; i++ {
		// a slice is not hashable: the hot-parameter check panics on it, the chain recovers and passes
		e, b := Entry(res, WithSlotChain(sc), WithTrafficType(base.Inbound), WithBatchCount(batch),
			WithArgs([]int{i}))
		if b != nil {
			blocks++
			continue
		}
		entries++
		e.Exit(base.WithError(errors.New("biz")))
	}
	if entries+blocks != n {
		t.Fatalf("%d Entry calls gave %d entries + %d block errors", n, entries, blocks)
	}

	node := stat.GetResourceNode(res)
	if node == nil {
		t.Fatalf("no statistic node for %q", res)
	}
	pass := node.GetSum(base.MetricEventPass)
	block := node.GetSum(base.MetricEventBlock)
	complete := node.GetSum(base.MetricEventComplete)
	inPass := stat.InboundNode().GetSum(base.MetricEventPass) - inPass0
	inBlock := stat.InboundNode().GetSum(base.MetricEventBlock) - inBlock0
	inComplete := stat.InboundNode().GetSum(base.MetricEventComplete) - inComplete0

	t.Logf("%d Entry calls x %d tokens: %d entries handed out, %d block errors; resource pass=%d block=%d complete=%d; "+
		"inbound pass=%d block=%d complete=%d; recording slot passed=%d blocked=%d completed=%d; concurrency=%d",
		n, batch, entries, blocks, pass, block, complete, inPass, inBlock, inComplete,
		rec.passed, rec.blocked, rec.completed, node.CurrentConcurrency())

	if node.CurrentConcurrency() != 0 {
		t.Errorf("concurrency of %q is %d with no entry in flight; the property demands exactly 0", res, node.CurrentConcurrency())
	}
	if pass+block != n*batch {
		t.Errorf("resource %q: %d Entry calls requested %d tokens and every call returned an outcome (%d entries, %d block errors), "+
			"but pass(%d)+block(%d)=%d tokens were counted; the property demands that each outcome is counted exactly once "+
			"(passed+blocked tokens equal the tokens requested), also when rule evaluation panics and the request is passed",
			res, n, n*batch, entries, blocks, pass, block, pass+block)
	}
	if inPass+inBlock != n*batch {
		t.Errorf("inbound total: %d inbound tokens requested, pass(%d)+block(%d)=%d counted; the property demands the same conservation on the inbound total",
			n*batch, inPass, inBlock, inPass+inBlock)
	}
	if complete != int64(entries*batch) || rec.completed != int64(entries) {
		t.Errorf("resource %q: %d passed entries were exited, but %d completion tokens (want %d) were counted and the recording slot saw %d completions (want %d); "+
			"the property demands exactly one completion per passed entry",
			res, entries, complete, entries*batch, rec.completed, entries)
	}
	if rec.passed+rec.blocked != n*batch {
		t.Errorf("recording statistic slot saw passed(%d)+blocked(%d)=%d tokens for %d requested", rec.passed, rec.blocked, rec.passed+rec.blocked, n*batch)
	}
	// consequence: the flow rule (5 tokens/s) is never enforced on this resource, because the passes it limits are never counted
	if entries*batch > 5 {
		t.Errorf("flow rule with threshold 5/s on %q: %d tokens were handed out within the same millisecond and none was blocked "+
			"(the uncounted passes make the resource look idle to every rule that reads its statistic)", res, entries*batch)
	}
}

// Finding 2: TraceError on an entry, racing with Exit of that same entry from another goroutine, can land
// after the entry's context went back to the pool and was handed to the next Entry: the error is then
// recorded on an unrelated entry (SetError checks "exited" and writes the context in two separate steps).
// The test repeats the race until it is observed (typically well under 3s on a multi-core machine).
func TestAuditTraceErrorRacingExitPollutesOtherEntry(t *testing.T) {
	sc := base.NewSlotChain()
	sc.AddStatPrepareSlot(stat.DefaultResourceNodePrepareSlot)
	probe := &auditErrProbe{}
	sc.AddStatSlot(probe)
	stray := errors.New("stray error of resource a")
	deadline := time.Now().Add(60 * time.Second)
	rounds := 0
	for time.Now().Before(deadline) && atomic.LoadInt64(&probe.polluted) == 0 {
		rounds++
		e, _ := Entry("zz-audit-race-a", WithSlotChain(sc))
		var wg sync.WaitGroup
		stop := int32(0)
		wg.Add(1)
		go func() {
			defer wg.Done()
			for atomic.LoadInt32(&stop) == 0 {
				TraceError(e, stray) // concurrent with, or later than, e.Exit()
			}
		}()
		e.Exit()
		// from here on e is exited; nothing below ever gets an error
		for i := 0; i < 20; i++ {
			e2, _ := Entry("zz-audit-race-b", WithSlotChain(sc))
			e2.Exit()
		}
		atomic.StoreInt32(&stop, 1)
		wg.Wait()
	}
	if n := atomic.LoadInt64(&probe.polluted); n != 0 {
		t.Errorf("after %d rounds: %d completion(s) of resource zz-audit-race-b carried the error %q, which was only ever traced on an entry of "+
			"zz-audit-race-a while that entry was being exited; the property demands that every passed entry completes with its own error "+
			"and that calls on an exited entry change nothing for any entry", rounds, n, probe.lastErr.Load())
	}
}

type auditErrProbe struct {
	polluted int64
	lastErr  atomic.Value
}

func (p *auditErrProbe) Order() uint32                                           { return 1 }
func (p *auditErrProbe) OnEntryPassed(ctx *base.EntryContext)                    {}
func (p *auditErrProbe) OnEntryBlocked(_ *base.EntryContext, _ *base.BlockError) {}
func (p *auditErrProbe) OnCompleted(ctx *base.EntryContext) {
	if err := ctx.Err(); ctx.Resource.Name() == "zz-audit-race-b" && err != nil {
		p.lastErr.Store(err.Error())
		atomic.AddInt64(&p.polluted, 1)
	}
}
