package hotspot

// Audit 6 of "hot-parameter QPS rules shape each parameter value independently".
//
// NO NEW VIOLATION WAS FOUND (see AUDIT.md). There is therefore no failing test in this file. The three
// tests below are the executable part of the examination: oracles taken literally from the property text,
// run over random configurations and multi-value arrival histories in virtual time. They PASS on the
// unmodified code; a failure of one of them would be a finding.

import (
	"math/big"
	"math/rand"
	"testing"
	"time"

	"github.com/alibaba/sentinel-golang/core/base"
	"github.com/alibaba/sentinel-golang/util"
)

type auditClock struct{ ms int64 }

func (c *auditClock) Now() time.Time            { return time.Unix(0, c.ms*1e6) }
func (c *auditClock) Sleep(d time.Duration)     { c.ms += int64(d / time.Millisecond) }
func (c *auditClock) CurrentTimeMillis() uint64 { return uint64(c.ms) }
func (c *auditClock) CurrentTimeNano() uint64   { return uint64(c.ms) * 1e6 }

type auditReq struct {
	dt    int64 // virtual milliseconds since the previous request
	val   interface{}
	batch uint32
}

type auditDecision struct {
	status base.TokenResultStatus
	wait   time.Duration
}

type auditKey struct {
	A string
	B int
}

// auditRun loads the rule and replays the history; with only != nil the requests of all other values are left out.
func auditRun(t *testing.T, rule *Rule, reqs []auditReq, only interface{}) []auditDecision {
	clk := &auditClock{ms: 1700000000000}
	util.SetClock(clk)
	_ = ClearRules()
	r := *rule
	if _, err := LoadRules([]*Rule{&r}); err != nil {
		t.Fatal(err)
	}
	tc := getTrafficControllersFor(r.Resource)[0]
	out := make([]auditDecision, 0, len(reqs))
	now := clk.ms
	for _, q := range reqs {
		now += q.dt
		clk.ms = now
		if only != nil && q.val != only {
			out = append(out, auditDecision{})
			continue
		}
		if res := tc.PerformChecking(q.val, int64(q.batch)); res == nil {
			out = append(out, auditDecision{status: base.ResultStatusPass})
		} else {
			out = append(out, auditDecision{status: res.Status(), wait: res.NanosToWait()})
		}
	}
	return out
}

var auditSteps = []int64{0, 0, 1, 10, 100, 333, 500, 999, 1000, 1001, 2000, 3001, 7000, 60000, 60001, 3600001, 86400001, 100000001}

// "Traffic on one value never changes the decision for another value while the configured parameter
// capacity is not exceeded": every value's decisions in the mixed history equal those of the history that
// holds its own requests only (int, string, bool, float, struct and int64 values; specific items; both modes).
func TestAuditProbe_ValuesDoNotInfluenceEachOtherWithinCapacity(t *testing.T) {
	defer func() { _ = ClearRules(); util.SetClock(util.NewRealClock()) }()
	vals := []interface{}{1, "a", true, 2.5, auditKey{"x", 1}, int64(1), false, "b"}
	rnd := rand.New(rand.NewSource(42))
	for iter := 0; iter < 400; iter++ {
		nv := 1 + rnd.Intn(len(vals))
		rule := &Rule{Resource: "audit-r", MetricType: QPS, ParamIndex: 0, DurationInSec: int64(1 + rnd.Intn(3)),
			Threshold: int64(rnd.Intn(6)), ParamsMaxCapacity: int64(nv + rnd.Intn(3))}
		if rnd.Intn(2) == 0 {
			rule.ControlBehavior, rule.BurstCount = Reject, int64(rnd.Intn(4))
		} else {
			rule.ControlBehavior, rule.MaxQueueingTimeMs = Throttling, int64(rnd.Intn(3000))
		}
		if rnd.Intn(2) == 0 {
			rule.SpecificItems = map[interface{}]int64{}
			for i := 0; i < nv; i++ {
				if rnd.Intn(3) == 0 {
					rule.SpecificItems[vals[i]] = int64(rnd.Intn(8))
				}
			}
		}
		reqs := make([]auditReq, 5+rnd.Intn(40))
		for i := range reqs {
			reqs[i] = auditReq{dt: auditSteps[rnd.Intn(13)], val: vals[rnd.Intn(nv)], batch: uint32(1 + rnd.Intn(3))}
		}
		all := auditRun(t, rule, reqs, nil)
		for i := 0; i < nv; i++ {
			alone := auditRun(t, rule, reqs, vals[i])
			for j := range reqs {
				if reqs[j].val == vals[i] && alone[j] != all[j] {
					t.Fatalf("rule %v: request %d for value %v is decided %v when the value is alone and %v among the other values (capacity %d >= %d values): the property demands that traffic on one value never changes the decision for another; history %v",
						rule, j, vals[i], alone[j], all[j], rule.ParamsMaxCapacity, nv, reqs)
				}
			}
		}
	}
}

// Reject: total <= (threshold+burst) + threshold per elapsed duration since first seen; <= 2*(threshold+burst)
// inside any single duration; a value idle for longer than the duration is granted a batch up to its threshold.
// Throttling: pass times at least batch*duration/threshold apart, no wait as long as MaxQueueingTimeMs.
func TestAuditProbe_BoundsOfOneValue(t *testing.T) {
	defer func() { _ = ClearRules(); util.SetClock(util.NewRealClock()) }()
	rnd := rand.New(rand.NewSource(7))
	for iter := 0; iter < 3000; iter++ {
		d := []int64{1, 2, 3, 7, 60, 3600, 86400, 100000}[rnd.Intn(8)]
		rule := &Rule{Resource: "audit-r", MetricType: QPS, ParamIndex: 0, DurationInSec: d, ParamsMaxCapacity: 4,
			Threshold: []int64{1, 2, 3, 5, 7, 999, 1000, 1001, 5000, 1000000, 1 << 40}[rnd.Intn(11)]}
		reject := rnd.Intn(2) == 0
		if reject {
			rule.ControlBehavior, rule.BurstCount = Reject, []int64{0, 1, 3, 5, 1000, 1 << 41}[rnd.Intn(6)]
		} else {
			rule.ControlBehavior, rule.MaxQueueingTimeMs = Throttling, []int64{0, 1, 500, 3000, 100000000}[rnd.Intn(5)]
		}
		reqs := make([]auditReq, 5+rnd.Intn(40))
		for i := range reqs {
			reqs[i] = auditReq{dt: auditSteps[rnd.Intn(len(auditSteps))], val: "v", batch: []uint32{1, 1, 2, 3, 10, 1000, 100000}[rnd.Intn(7)]}
		}
		dec := auditRun(t, rule, reqs, nil)
		T, B, dm := rule.Threshold, rule.BurstCount, d*1000
		mul := func(a, b int64) *big.Int { return new(big.Int).Mul(big.NewInt(a), big.NewInt(b)) }
		var times, toks []int64
		now, first, lastReq, total, lastPass := int64(0), int64(-1), int64(-1), int64(0), int64(-1)
		for i, q := range reqs {
			now += q.dt
			if first < 0 {
				first = now
			}
			b := int64(q.batch)
			if reject {
				idle := lastReq < 0 || now-lastReq > dm
				lastReq = now
				if dec[i].status != base.ResultStatusPass {
					if idle && b <= T {
						t.Fatalf("rule %v: request %d (batch %d) of a value idle for longer than the duration is rejected; the property demands that it is granted; history %v decisions %v", rule, i, b, reqs, dec)
					}
					continue
				}
				total += b
				times, toks = append(times, now), append(toks, b)
				// (total - (T+B)) * dm <= T * elapsed
				if mul(total-(T+B), dm).Cmp(mul(T, now-first)) > 0 {
					t.Fatalf("rule %v: %d tokens admitted %d ms after the value was first seen; the property allows (threshold+burst) plus threshold per elapsed duration; history %v decisions %v", rule, total, now-first, reqs, dec)
				}
				s := int64(0)
				for k := len(times) - 1; k >= 0 && now-times[k] <= dm; k-- {
					s += toks[k]
				}
				if s > 2*(T+B) {
					t.Fatalf("rule %v: %d tokens admitted inside one duration; the property allows twice (threshold+burst); history %v decisions %v", rule, s, reqs, dec)
				}
			} else {
				if dec[i].status == base.ResultStatusBlocked {
					continue
				}
				w := int64(dec[i].wait / time.Millisecond)
				if w > 0 && w >= rule.MaxQueueingTimeMs {
					t.Fatalf("rule %v: request %d is asked to wait %d ms, as long as the maximum queueing time; history %v", rule, i, w, reqs)
				}
				p := now + w
				if lastPass >= 0 && mul(p-lastPass, T).Cmp(mul(b, dm)) < 0 {
					t.Fatalf("rule %v: request %d (batch %d) is scheduled %d ms after the previous one; the property demands batch*duration/threshold; history %v decisions %v", rule, i, b, p-lastPass, reqs, dec)
				}
				lastPass = p
			}
		}
	}
}

// The same independence with one goroutine per value at one instant: every value gets exactly threshold+burst.
func TestAuditProbe_ConcurrentValuesDoNotInfluenceEachOther(t *testing.T) {
	defer func() { _ = ClearRules(); util.SetClock(util.NewRealClock()) }()
	for iter := 0; iter < 100; iter++ {
		util.SetClock(&auditClock{ms: 1700000000000})
		_ = ClearRules()
		if _, err := LoadRules([]*Rule{{Resource: "audit-r", MetricType: QPS, ControlBehavior: Reject, ParamIndex: 0,
			DurationInSec: 1, Threshold: 7, BurstCount: 3, ParamsMaxCapacity: 8}}); err != nil {
			t.Fatal(err)
		}
		tc := getTrafficControllersFor("audit-r")[0]
		done := make(chan [2]int64, 8)
		for g := 0; g < 8; g++ {
			go func(g int) {
				n := int64(0)
				for i := 0; i < 300; i++ {
					if tc.PerformChecking(g, 1) == nil {
						n++
					}
				}
				done <- [2]int64{int64(g), n}
			}(g)
		}
		for g := 0; g < 8; g++ {
			if x := <-done; x[1] != 10 {
				t.Fatalf("value %d was admitted %d times at one instant while 7 other values (capacity 8) were requested concurrently; alone it is admitted threshold+burst = 10 times", x[0], x[1])
			}
		}
	}
}
