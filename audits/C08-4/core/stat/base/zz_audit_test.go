package base

import (
	"strconv"
	"testing"
	"time"

	"github.com/alibaba/sentinel-golang/core/base"
	"github.com/alibaba/sentinel-golang/logging"
	"github.com/alibaba/sentinel-golang/util"
)

// auditClock is a clock whose millisecond reading is set directly (the MockClock of util cannot
// express every uint64 millisecond value because it goes through time.Time).
type auditClock struct{ ms uint64 }

func (c *auditClock) Now() time.Time            { return time.Unix(0, int64(c.ms)*int64(time.Millisecond)) }
func (c *auditClock) Sleep(time.Duration)       {}
func (c *auditClock) CurrentTimeMillis() uint64 { return c.ms }
func (c *auditClock) CurrentTimeNano() uint64   { return c.ms * uint64(time.Millisecond) }

// Finding 1: LeapArray.calculateTimeIdx converts the bucket number (now / bucketLength, a uint64) to int
// BEFORE reducing it modulo the array length. When the bucket number does not fit in int the slot index is
// negative (or simply another slot than the one NewAtomicBucketWrapArrayWithTime assigned to that time).
//   - GOARCH=386 / arm / mips (int is 32 bit): bucket number >= 2^31, that is EVERY present-day wall clock
//     with the default 500 ms buckets (1.79e12 / 500 = 3.58e9).
//   - 64 bit platforms: only for now >= 2^63 * bucketLength.
//
// The test picks the smallest demonstration for the platform it runs on.
func TestAuditTimeIdxConvertedToIntBeforeModulo(t *testing.T) {
	oldClock := util.CurrentClock()
	defer util.SetClock(oldClock)

	var (
		now         uint64
		sampleCount uint32
		interval    uint32
	)
	if strconv.IntSize == 32 {
		// the default geometry at a wall clock of September 2026
		now, sampleCount, interval = 1790000000123, 20, 10000
	} else {
		// 1 ms buckets, timestamp in the upper half of the uint64 range
		now, sampleCount, interval = 1<<63+6, 4, 4
	}
	clk := &auditClock{ms: now}
	util.SetClock(clk)

	arr := NewBucketLeapArray(sampleCount, interval)
	bl := uint64(arr.BucketLengthInMs())

	want := int((now / bl) % uint64(sampleCount)) // the slot the constructor gave to the bucket of now
	got := arr.data.calculateTimeIdx(now)
	if got != want {
		t.Errorf("calculateTimeIdx(now=%d) = %d for an array of %d x %d ms; the bucket of now lives in slot %d "+
			"(bucket number %d mod %d). The property demands that every event is recorded in the bucket "+
			"of its timestamp for all monotone timestamp sequences; here the slot index is computed from "+
			"int(bucket number), which does not fit in int (%d bit)",
			now, got, sampleCount, bl, want, now/bl, sampleCount, strconv.IntSize)
	}
	if w := arr.data.array.get(want); w == nil || w.BucketStart != now-now%bl {
		t.Fatalf("test assumption broken: slot %d should hold the bucket starting at %d", want, now-now%bl)
	}

	// The consequence: with a negative index get() returns nil and compareAndSet() fails, so
	// currentBucketOfTime spins forever; the event is never recorded and the caller never returns.
	// (The spin logs an error per iteration, silence the logger for it.)
	logging.ResetGlobalLoggerLevel(logging.ErrorLevel + 1)
	done := make(chan struct{})
	go func() {
		arr.AddCount(base.MetricEventPass, 1)
		close(done)
	}()
	select {
	case <-done:
		if c := arr.Count(base.MetricEventPass); c != 1 {
			t.Errorf("one pass recorded at now=%d, Count(pass) read at the same instant = %d; "+
				"the property demands 1 (nothing inside the window is lost)", now, c)
		}
	case <-time.After(500 * time.Millisecond):
		t.Errorf("AddCount(pass, 1) at now=%d on an array of %d x %d ms did not return within 500 ms: "+
			"currentBucketOfTime spins on slot index %d forever. The property demands that the event is "+
			"recorded and visible in the window ending at the current bucket", now, sampleCount, bl, got)
	}
}

// Finding 2: a reader decides that a bucket belongs to its window by looking at BucketStart
// (ValuesConditional) and loads the counters afterwards (count). ResetBucketTo recycles the SAME
// BucketWrap / MetricBucket in place, so when the clock crosses a bucket boundary between those two steps
// the reader adds up counters that already belong to another bucket.
//
// It needs no stall when the oldest bucket of the reader's window is the oldest bucket the array retains,
// which is the normal situation of a previous-window read on a view that is exactly one view bucket
// shorter than the array (the standalone statistic of a flow rule: array 2 x interval, view 1 x interval).
//
// The interleaving is reproduced deterministically by executing the two halves of
// SlidingWindowMetric.getSumWithTime (getSatisfiedBuckets, then count) around the writer.
func TestAuditPreviousWindowReadCountsRecycledBucket(t *testing.T) {
	oldClock := util.CurrentClock()
	defer util.SetClock(oldClock)
	clk := &auditClock{ms: 0}
	util.SetClock(clk)

	arr := NewBucketLeapArray(2, 2000) // buckets of 1000 ms
	m, err := NewSlidingWindowMetric(1, 1000, arr)
	if err != nil {
		t.Fatal(err)
	}

	clk.ms = 500
	arr.AddCount(base.MetricEventPass, 7) // the only events of [0, 1000)

	// reader: GetPreviousQPS at 1999 -> getQPSWithTime(1999-1000) -> getSumWithTime(999):
	clk.ms = 1999
	readerNow := clk.ms - uint64(m.bucketLengthInMs)
	satisfied := m.getSatisfiedBuckets(readerNow) // first half: bucket [0,1000) found valid

	// the clock ticks, a writer records 3 passes in the bucket [2000, 3000), which recycles the slot of [0, 1000)
	clk.ms = 2000
	arr.AddCount(base.MetricEventPass, 3)

	got := m.count(base.MetricEventPass, satisfied) // second half of getSumWithTime

	// previous window of the reader's clock reading (1999): [0, 1000) -> 7
	// previous window one tick later (2000):             [1000, 2000) -> 0
	if got != 7 && got != 0 {
		t.Errorf("previous-window pass sum read while the clock went from 1999 to 2000 = %d; the previous window "+
			"at 1999 ([0,1000)) holds 7 and the one at 2000 ([1000,2000)) holds 0. The reader counted the "+
			"3 events of the CURRENT bucket [2000,3000), whose slot was recycled between the reader's "+
			"BucketStart check and its counter load; the property demands the events of the aligned "+
			"window and nothing outside it, for any goroutine interleaving", got)
	}
}
