package base

// Audit round 3 of the property "sliding-window counters stay sound under concurrent writers
// and rollover". No new violation was found (see AUDIT.md at the repository root), so this file
// holds no failing test. It keeps the two exploration checks the audit relied on, both of which
// PASS on the code as it is:
//
//   - TestAuditExplore_SequentialAgainstSpec: differential test of BucketLeapArray.CountWithTime and of
//     every valid SlidingWindowMetric view against a direct specification of the window sums, over
//     random configurations (1-5 buckets, bucket length 1-4 ms), tiny and large timestamps, and clock
//     steps from 0 up to three intervals.
//   - TestAuditExplore_ParallelNeverExceeds: parallel recorders / refreshing readers / non-refreshing
//     readers on 1-, 2- and 3-bucket arrays with a clock that crosses a bucket boundary every few
//     microseconds; no reported sum may exceed what has been recorded and everything must terminate.

import (
	"math/rand"
	"sync"
	"sync/atomic"
	"testing"

	"github.com/alibaba/sentinel-golang/core/base"
	"github.com/alibaba/sentinel-golang/logging"
)

type auditRec struct {
	t   uint64
	amt int64
}

// auditSpecSum is the sum the property demands for a read at time now over a window of the given
// length: every amount whose bucket (selected by its own timestamp) starts in
// (curStart-interval, curStart].
func auditSpecSum(recs []auditRec, now, bucketLen, interval uint64) int64 {
	cur := now - now%bucketLen
	var s int64
	for _, r := range recs {
		bs := r.t - r.t%bucketLen
		if bs <= cur && bs+interval >= cur+bucketLen {
			s += r.amt
		}
	}
	return s
}

func auditNewArray(n, bucketLen uint32, now uint64) *BucketLeapArray {
	bla := &BucketLeapArray{
		data:     LeapArray{bucketLengthInMs: bucketLen, sampleCount: n, intervalInMs: n * bucketLen},
		dataType: "MetricBucket",
	}
	bla.data.array = NewAtomicBucketWrapArrayWithTime(int(n), bucketLen, now, bla)
	return bla
}

func TestAuditExplore_SequentialAgainstSpec(t *testing.T) {
	rng := rand.New(rand.NewSource(20260927))
	for iter := 0; iter < 20000; iter++ {
		n := uint32(rng.Intn(5) + 1)
		bucketLen := uint32(rng.Intn(4) + 1)
		interval := n * bucketLen
		t0 := uint64(rng.Intn(40))
		if rng.Intn(2) == 0 {
			t0 += 1000000
		}
		bla := auditNewArray(n, bucketLen, t0)
		var views []*SlidingWindowMetric
		for sc := uint32(1); sc <= n; sc++ {
			for iv := bucketLen; iv <= interval; iv += bucketLen {
				if m, err := NewSlidingWindowMetric(sc, iv, bla); err == nil {
					views = append(views, m)
				}
			}
		}
		var recs []auditRec
		now := t0
		for step := 0; step < 30; step++ {
			now += uint64(rng.Intn(int(3*interval))) / uint64(rng.Intn(3)+1)
			switch rng.Intn(3) {
			case 0:
				amt := int64(rng.Intn(9) + 1)
				bla.addCountWithTime(now, base.MetricEventPass, amt)
				recs = append(recs, auditRec{now, amt})
			case 1:
				got := bla.CountWithTime(now, base.MetricEventPass)
				want := auditSpecSum(recs, now, uint64(bucketLen), uint64(interval))
				if got != want {
					t.Fatalf("n=%d bucketLen=%d built at %d: CountWithTime(%d) reports %d, the amounts recorded in its window add up to %d (recorded: %v)",
						n, bucketLen, t0, now, got, want, recs)
				}
			case 2:
				m := views[rng.Intn(len(views))]
				got := m.getSumWithTime(now, base.MetricEventPass)
				want := auditSpecSum(recs, now, uint64(bucketLen), uint64(m.intervalInMs))
				if got != want {
					t.Fatalf("n=%d bucketLen=%d built at %d: view(%d,%d).getSumWithTime(%d) reports %d, the amounts recorded in its window add up to %d (recorded: %v)",
						n, bucketLen, t0, m.sampleCount, m.intervalInMs, now, got, want, recs)
				}
				if prev := uint64(m.bucketLengthInMs); now >= prev {
					got = m.getSumWithTime(now-prev, base.MetricEventPass)
					want = auditSpecSum(recs, now-prev, uint64(bucketLen), uint64(m.intervalInMs))
					if got > want {
						t.Fatalf("n=%d bucketLen=%d built at %d: view(%d,%d) read of the previous window at %d reports %d, more than the %d recorded in it (recorded: %v)",
							n, bucketLen, t0, m.sampleCount, m.intervalInMs, now-prev, got, want, recs)
					}
				}
			}
		}
	}
}

func TestAuditExplore_ParallelNeverExceeds(t *testing.T) {
	lvl := logging.GetGlobalLoggerLevel()
	logging.ResetGlobalLoggerLevel(logging.Level(100)) // recorders that fall a whole cycle behind are rejected with an error log
	defer logging.ResetGlobalLoggerLevel(lvl)

	for _, cfg := range [][2]uint32{{1, 2}, {2, 2}, {3, 1}, {2, 5}} {
		n, bucketLen := cfg[0], cfg[1]
		bla := auditNewArray(n, bucketLen, 1000)
		view, err := NewSlidingWindowMetric(n, n*bucketLen, bla)
		if err != nil {
			t.Fatal(err)
		}
		var (
			clock    uint64 = 1000
			recorded int64
			exceeded int64
			stop     int32
			wg       sync.WaitGroup
		)
		for g := 0; g < 8; g++ {
			wg.Add(1)
			go func() {
				defer wg.Done()
				for atomic.LoadInt32(&stop) == 0 {
					now := atomic.LoadUint64(&clock)
					atomic.AddInt64(&recorded, 1) // counted before it can become visible
					bla.addCountWithTime(now, base.MetricEventPass, 1)
				}
			}()
		}
		for g := 0; g < 4; g++ {
			wg.Add(1)
			go func(g int) {
				defer wg.Done()
				for atomic.LoadInt32(&stop) == 0 {
					now := atomic.LoadUint64(&clock)
					var got int64
					if g%2 == 0 {
						got = bla.CountWithTime(now, base.MetricEventPass)
					} else {
						got = view.getSumWithTime(now, base.MetricEventPass)
					}
					if got > atomic.LoadInt64(&recorded) {
						atomic.AddInt64(&exceeded, 1)
					}
				}
			}(g)
		}
		for i := 0; i < 100000; i++ {
			atomic.AddUint64(&clock, 1)
			for spin := 0; spin < 200; spin++ {
				_ = atomic.LoadInt32(&stop)
			}
		}
		atomic.StoreInt32(&stop, 1)
		wg.Wait() // every recorder and reader must terminate
		if exceeded > 0 {
			t.Errorf("n=%d bucketLen=%d: %d reads reported more than had been recorded at all; the property demands that reported totals never exceed what has been recorded",
				n, bucketLen, exceeded)
		}
	}
}
