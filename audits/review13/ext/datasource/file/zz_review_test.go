package file

import (
	"os"
	"path/filepath"
	"sync"
	"syscall"
	"testing"
	"time"

	"github.com/alibaba/sentinel-golang/ext/datasource"
)

// reviewRecorder is the downstream of the datasource under review: it keeps every property it is handed
// ("<nil>" for the nil property that stands for "no rules").
type reviewRecorder struct {
	mu     sync.Mutex
	vals   []string
	onData func(string) // called in the datasource's goroutine, before the value is recorded
}

func (r *reviewRecorder) last() string {
	r.mu.Lock()
	defer r.mu.Unlock()
	if len(r.vals) == 0 {
		return "<none>"
	}
	return r.vals[len(r.vals)-1]
}

func (r *reviewRecorder) all() []string {
	r.mu.Lock()
	defer r.mu.Unlock()
	return append([]string(nil), r.vals...)
}

func (r *reviewRecorder) waitFor(want string, d time.Duration) bool {
	for end := time.Now().Add(d); time.Now().Before(end); time.Sleep(10 * time.Millisecond) {
		if r.last() == want {
			return true
		}
	}
	return false
}

func reviewNewDataSource(t *testing.T, path string, r *reviewRecorder) *RefreshableFileDataSource {
	h := datasource.NewDefaultPropertyHandler(func(src []byte) (interface{}, error) {
		if src == nil {
			return "<nil>", nil
		}
		return string(src), nil
	}, func(data interface{}) error {
		if r.onData != nil {
			r.onData(data.(string))
		}
		r.mu.Lock()
		r.vals = append(r.vals, data.(string))
		r.mu.Unlock()
		return nil
	})
	ds := NewFileDataSource(path, h)
	if err := ds.Initialize(); err != nil {
		t.Fatal(err)
	}
	return ds
}

// Review finding 3 (969d6b2).
//
// The rules file loses its read permission for a moment and gets it back (chmod 000 ... chmod 644, or the
// chown / chmod sequence of a deployment tool), then it is written. Up to 969d6b2 the datasource logged a failed
// read and went on: its watch stayed where it was, the second chmod and the write were announced and the new
// rules were read. Now every attribute change makes it drop its watch and set a new one - and setting a watch
// needs read permission (inotify_add_watch: EACCES) while the os.Stat in front of it does not. The old watch is
// gone, the new one is refused, the error is only logged: the datasource goes on without any watch, never sees
// the file again and never ends either.
func TestReviewFileUnreadableForAMomentLosesTheWatch(t *testing.T) {
	dir, err := os.MkdirTemp("", "review-file-ds")
	if err != nil {
		t.Fatal(err)
	}
	defer os.RemoveAll(dir)
	path := filepath.Join(dir, "rules.json")
	if err := os.WriteFile(path, []byte("v1"), 0644); err != nil {
		t.Fatal(err)
	}
	if os.Geteuid() == 0 {
		// root reads everything: the test process takes the effective uid of "nobody" (all its threads; the
		// saved uid stays 0) for the time of the test, and hands the file and its directory over first.
		const nobody = 65534
		if err := os.Chmod(dir, 0755); err != nil {
			t.Fatal(err)
		}
		if err := os.Chown(dir, nobody, nobody); err != nil {
			t.Skip("cannot hand the file over to an unprivileged user:", err)
		}
		if err := os.Chown(path, nobody, nobody); err != nil {
			t.Skip("cannot hand the file over to an unprivileged user:", err)
		}
		if err := syscall.Seteuid(nobody); err != nil {
			t.Skip("cannot drop privileges:", err)
		}
		defer syscall.Seteuid(0)
	}
	if f, err := os.Open(path); err != nil {
		t.Skip("test setup: the file cannot be read in the first place:", err)
	} else {
		f.Close()
	}

	r := &reviewRecorder{}
	ds := reviewNewDataSource(t, path, r)
	defer ds.Close()
	if !r.waitFor("v1", time.Second) {
		t.Fatalf("test setup: the first read should hand down v1, got %v", r.all())
	}

	if err := os.Chmod(path, 0); err != nil {
		t.Fatal(err)
	}
	if f, err := os.Open(path); err == nil {
		f.Close()
		t.Skip("test setup: the file can still be read after chmod 000 (privileged process)")
	}
	time.Sleep(300 * time.Millisecond) // the datasource deals with the attribute change
	if err := os.Chmod(path, 0644); err != nil {
		t.Fatal(err)
	}
	time.Sleep(300 * time.Millisecond)
	if err := os.WriteFile(path, []byte("v2"), 0644); err != nil {
		t.Fatal(err)
	}
	if !r.waitFor("v2", 3*time.Second) {
		t.Errorf("the rules file was unreadable for a moment (chmod 000, then chmod 644) and was then written with v2: the datasource handed down %v and never v2, want v2 as the last property (the file is readable and the datasource has not been closed: closed=%v). It has dropped its watch on the attribute change and could not set a new one while the file was unreadable", r.all(), ds.closed.Get())
	}
}

// Review finding 4 (1370ed8, together with 969d6b2).
//
// The rules file is replaced by a rename over it (v2), and while the datasource is still handing v2 down the next
// update begins, this time as a rotation: the file is moved aside, written anew under its name (v3), the copy is
// removed. The removal of the inode that the first update replaced is still queued behind the event the
// datasource is working on. It is dealt with in the moment in which the rotation has moved the file aside and
// not yet written the new one: no file exists under the watched name, so the removal of a file that used to
// carry the name is again taken for the removal of the source - the rules are cleared and the datasource ends,
// v3 and everything after it is never read. (A rename alone is waited out for six seconds by the very same
// loop.)
func TestReviewFileStaleRemovalInRotationGapEndsTheDataSource(t *testing.T) {
	dir := t.TempDir()
	path := filepath.Join(dir, "rules.json")
	if err := os.WriteFile(path, []byte("v1"), 0644); err != nil {
		t.Fatal(err)
	}
	handingDownV2 := make(chan struct{})
	movedAside := make(chan struct{})
	r := &reviewRecorder{}
	r.onData = func(v string) {
		if v == "v2" {
			close(handingDownV2)
			<-movedAside // the downstream takes its time with v2; meanwhile the rotation begins
		}
	}
	ds := reviewNewDataSource(t, path, r)
	defer ds.Close()

	// first update: rename over the file
	if err := os.WriteFile(path+".tmp", []byte("v2"), 0644); err != nil {
		t.Fatal(err)
	}
	if err := os.Rename(path+".tmp", path); err != nil {
		t.Fatal(err)
	}
	select {
	case <-handingDownV2:
	case <-time.After(3 * time.Second):
		t.Fatalf("test setup: v2 was not read, got %v", r.all())
	}
	// second update: rotation
	if err := os.Rename(path, path+".bak"); err != nil {
		t.Fatal(err)
	}
	close(movedAside)
	time.Sleep(100 * time.Millisecond)
	if err := os.WriteFile(path, []byte("v3"), 0644); err != nil {
		t.Fatal(err)
	}
	if err := os.Remove(path + ".bak"); err != nil {
		t.Fatal(err)
	}
	if !r.waitFor("v3", 8*time.Second) {
		t.Errorf("the file was replaced by a rename over it (v2) and then rotated (moved aside, written anew with v3, copy removed): the datasource handed down %v and ended (closed=%v), want v3 as the last property and the datasource alive. The queued removal of the inode that the first update had replaced was taken for the removal of the source, because it was dealt with while the rotation had the file moved aside", r.all(), ds.closed.Get())
	}
}
