package goframe

import (
	"context"
	"net/http"
	"net/http/httptest"
	"testing"

	sentinel "github.com/alibaba/sentinel-golang/api"
	"github.com/gogf/gf/v2/errors/gcode"
	"github.com/gogf/gf/v2/errors/gerror"
	"github.com/gogf/gf/v2/frame/g"
	"github.com/gogf/gf/v2/net/ghttp"
)

type reviewHelloReq struct {
	g.Meta `path:"/hello" method:"get"`
	Name   string
}

type reviewHelloRes struct {
	Greeting string `json:"greeting"`
}

type reviewHelloController struct{}

func (reviewHelloController) Hello(_ context.Context, req *reviewHelloReq) (*reviewHelloRes, error) {
	return &reviewHelloRes{Greeting: "hello " + req.Name}, nil
}

// Review finding 1 (13bddf2 / 8536153), goframe.
//
// An earlier middleware notes an error on the request and goes on. The chain behind the adapter takes the
// error out of the request's slot again:
//   - "handler": a standard goframe handler (func(ctx, *Req) (*Res, error)) - goframe stores the outcome of
//     parsing the request struct in the slot before it calls the handler, which is nil for a valid request;
//   - "middleware": a middleware that deals with the error and calls r.SetError(nil).
//
// Without the adapter the outermost middleware (ghttp.MiddlewareHandlerResponse) finds no error and answers
// code 0. With the adapter in the chain the earlier error is back in the slot after the adapter has returned,
// and the very same chain answers with an error code: the adapter takes "the slot is empty" for "the handler has
// left no error" and puts the earlier error back, although the stand-in it had put there is gone.
func TestReviewGoframeAdapterResurrectsClearedError(t *testing.T) {
	if err := sentinel.InitDefault(); err != nil {
		t.Fatal(err)
	}
	noteEarlier := func(r *ghttp.Request) {
		r.SetError(gerror.NewCode(gcode.CodeValidationFailed, "noted by an earlier middleware"))
		r.Middleware.Next()
	}
	dealWith := func(r *ghttp.Request) {
		if r.GetError() != nil {
			r.SetError(nil) // dealt with
		}
		r.Middleware.Next()
	}
	plain := func(r *ghttp.Request) { r.Response.Write("done") }

	s := g.Server("review-goframe-cleared")
	s.SetDumpRouterMap(false)
	s.SetPort(0)
	s.SetErrorLogEnabled(false)
	s.SetAccessLogEnabled(false)
	s.Group("/handler/without", func(group *ghttp.RouterGroup) {
		group.Middleware(ghttp.MiddlewareHandlerResponse, noteEarlier)
		group.Bind(reviewHelloController{})
	})
	s.Group("/handler/with", func(group *ghttp.RouterGroup) {
		group.Middleware(ghttp.MiddlewareHandlerResponse, noteEarlier, SentinelMiddleware())
		group.Bind(reviewHelloController{})
	})
	var errAfter = map[string]error{}
	look := func(r *ghttp.Request) {
		r.Middleware.Next()
		errAfter[r.URL.Path] = r.GetError()
	}
	s.Group("/middleware/without", func(group *ghttp.RouterGroup) {
		group.Middleware(look, noteEarlier, dealWith)
		group.GET("/x", plain)
	})
	s.Group("/middleware/with", func(group *ghttp.RouterGroup) {
		group.Middleware(look, noteEarlier, SentinelMiddleware(), dealWith)
		group.GET("/x", plain)
	})
	if err := s.Start(); err != nil {
		t.Fatal(err)
	}
	defer s.Shutdown()

	get := func(path string) string {
		w := httptest.NewRecorder()
		s.ServeHTTP(w, httptest.NewRequest(http.MethodGet, path, nil))
		return w.Body.String()
	}

	without, with := get("/handler/without/hello?name=a"), get("/handler/with/hello?name=a")
	if without != with {
		t.Errorf("standard handler behind an earlier middleware that noted an error:\n  without the adapter the chain answers %s\n  with the adapter it answers          %s\nwant the same answer: the adapter must not put back an error that the chain behind it has taken out of the slot", without, with)
	}

	get("/middleware/without/x")
	get("/middleware/with/x")
	if e := errAfter["/middleware/without/x"]; e != nil {
		t.Fatalf("test setup: without the adapter the error should be gone, got %v", e)
	}
	if e := errAfter["/middleware/with/x"]; e != nil {
		t.Errorf("a middleware behind the adapter dealt with the earlier error and called r.SetError(nil); after the adapter the request carries the error again: %q, want none (as without the adapter)", e.Error())
	}
}
