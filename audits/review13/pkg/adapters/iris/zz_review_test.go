package iris

import (
	"errors"
	"net/http"
	"strings"
	"testing"

	sentinel "github.com/alibaba/sentinel-golang/api"
	"github.com/kataras/iris/v12"
	"github.com/kataras/iris/v12/httptest"
)

// Review finding 1 (13bddf2, the lines it took over from 45f9d91), iris.
//
// An earlier handler leaves an error in the context and goes on; a handler behind the adapter deals with it and
// removes it ("To remove an error simply pass nil", says iris of SetErr). Without the adapter the handler in
// front, which looks after ctx.Next(), finds no error. With the adapter the error is back: the adapter takes
// "the slot is empty" for "nothing was set for this entry" and puts the earlier error back, although the
// stand-in it had put there is gone.
func TestReviewIrisAdapterResurrectsClearedError(t *testing.T) {
	if err := sentinel.InitDefault(); err != nil {
		t.Fatal(err)
	}
	run := func(withAdapter bool) error {
		var after error
		app := iris.New()
		app.Use(func(ctx iris.Context) {
			ctx.Next()
			after = ctx.GetErr()
		})
		app.Use(func(ctx iris.Context) {
			ctx.SetErr(errors.New("noted by an earlier handler"))
			ctx.Next()
		})
		if withAdapter {
			app.Use(SentinelMiddleware())
		}
		app.Get("/x", func(ctx iris.Context) {
			if ctx.GetErr() != nil {
				ctx.SetErr(nil) // dealt with
			}
			ctx.WriteString("done")
		})
		httptest.New(t, app).GET("/x").Expect().Status(http.StatusOK)
		return after
	}
	if e := run(false); e != nil {
		t.Fatalf("test setup: without the adapter the error should be gone, got %v", e)
	}
	if e := run(true); e != nil {
		t.Errorf("the handler behind the adapter dealt with the earlier error and called ctx.SetErr(nil); after the adapter the context carries the error again: %q, want none (as without the adapter)", e.Error())
	}
}

// reviewSecretErr is an error that must never be shown to a client: it implements iris' ErrPrivate.
type reviewSecretErr struct{ msg string }

func (e reviewSecretErr) Error() string     { return e.msg }
func (e reviewSecretErr) IrisPrivateError() {}

// Review finding 2 (13bddf2), iris.
//
// An earlier handler stores an error of a type that implements iris.ErrPrivate (iris' own ErrPanicRecovery is
// one) and goes on. The handler behind the adapter ends the request the usual way with what it finds in the
// context: ctx.StopWithError(500, ctx.GetErr()). iris renders the text of an error to the client unless the
// error says it is private - which it finds out by a type assertion, not through Unwrap. Without the adapter the
// client gets the status text. With the adapter the handler is handed the stand-in, which hides the type of the
// error it stands in for, and the private text goes out to the client. ("public or private as it was", says the
// adapter's comment.)
func TestReviewIrisStandInLeaksPrivateError(t *testing.T) {
	if err := sentinel.InitDefault(); err != nil {
		t.Fatal(err)
	}
	const secret = "dial tcp 10.1.2.3:5432: password authentication failed for user admin"
	run := func(withAdapter bool) string {
		app := iris.New()
		app.Use(func(ctx iris.Context) {
			ctx.SetErr(reviewSecretErr{secret})
			ctx.Next()
		})
		if withAdapter {
			app.Use(SentinelMiddleware())
		}
		app.Get("/x", func(ctx iris.Context) {
			if err := ctx.GetErr(); err != nil {
				ctx.StopWithError(http.StatusInternalServerError, err)
				return
			}
			ctx.WriteString("done")
		})
		return httptest.New(t, app).GET("/x").Expect().Status(http.StatusInternalServerError).Body().Raw()
	}
	without := run(false)
	if strings.Contains(without, secret) {
		t.Fatalf("test setup: without the adapter the private text should not be sent, got %q", without)
	}
	if with := run(true); strings.Contains(with, secret) {
		t.Errorf("an earlier handler stored a private error (iris.ErrPrivate); the handler behind the adapter ended the request with ctx.StopWithError(500, ctx.GetErr()).\n  without the adapter the client gets %q\n  with the adapter the client gets    %q\nwant the same: the stand-in must be private where the error it stands in for is", without, with)
	}
}
