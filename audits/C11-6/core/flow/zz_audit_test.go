package flow

import (
	"fmt"
	"sync"
	"sync/atomic"
	"testing"
	"time"

	"github.com/alibaba/sentinel-golang/core/base"
	"github.com/alibaba/sentinel-golang/core/stat"
	"github.com/alibaba/sentinel-golang/logging"
	"github.com/alibaba/sentinel-golang/util"
)

// ---------------------------------------------------------------------------------------------
// helpers: a virtual clock that never sleeps for real, and a slot chain of the built-in slots that
// matter for a flow rule (resource node, flow check, resource statistic, the rules' own statistic)
// ---------------------------------------------------------------------------------------------

type auditClock struct {
	mu  sync.Mutex
	now time.Time
}

func (c *auditClock) Now() time.Time {
	c.mu.Lock()
	defer c.mu.Unlock()
	return c.now
}

func (c *auditClock) Sleep(d time.Duration) {
	if d > 0 {
		c.mu.Lock()
		c.now = c.now.Add(d)
		c.mu.Unlock()
	}
}

func (c *auditClock) CurrentTimeMillis() uint64 { return uint64(c.Now().UnixNano()) / 1e6 }
func (c *auditClock) CurrentTimeNano() uint64   { return uint64(c.Now().UnixNano()) }

func (c *auditClock) setMs(ms uint64) {
	c.mu.Lock()
	c.now = time.Unix(0, int64(ms)*int64(time.Millisecond))
	c.mu.Unlock()
}

func auditUseClock(t *testing.T) *auditClock {
	clk := &auditClock{}
	// far enough in the future that nothing recorded under the real clock lies ahead of it
	clk.setMs(auditEpochMs)
	util.SetClock(clk)
	logging.ResetGlobalLoggerLevel(logging.ErrorLevel)
	t.Cleanup(func() {
		util.SetClock(util.NewRealClock())
		_ = ClearRules()
	})
	return clk
}

// 2030-03-17, a multiple of 10 s
const auditEpochMs = uint64(1900000000000)

func auditChain(extra ...base.StatSlot) *base.SlotChain {
	sc := base.NewSlotChain()
	sc.AddStatPrepareSlot(stat.DefaultResourceNodePrepareSlot)
	sc.AddRuleCheckSlot(DefaultSlot)
	sc.AddStatSlot(stat.DefaultSlot)
	sc.AddStatSlot(DefaultStandaloneStatSlot)
	for _, s := range extra {
		sc.AddStatSlot(s)
	}
	return sc
}

// auditEnter does what api.Entry does (the api package cannot be imported from here). It returns the
// entry of an admitted request (the caller exits it) or nil for a rejected one.
func auditEnter(sc *base.SlotChain, res string) *base.SentinelEntry {
	rw := base.NewResourceWrapper(res, base.ResTypeCommon, base.Outbound)
	ctx := sc.GetPooledContext()
	ctx.Resource = rw
	ctx.Input.BatchCount = 1
	e := base.NewSentinelEntry(ctx, rw, sc)
	ctx.SetEntry(e)
	r := sc.Entry(ctx)
	if r != nil && r.Status() == base.ResultStatusBlocked {
		e.Exit()
		return nil
	}
	return e
}

// ---------------------------------------------------------------------------------------------
// Finding 1
// ---------------------------------------------------------------------------------------------

// auditLongCalls drives a saturating demand (one single-token request every 10 ms) against the warm-up
// rule for 200 s of virtual time; every admitted call takes 9.968 s. It returns the admitted requests
// per 10 s interval of the rule.
func auditLongCalls(clk *auditClock, res string, start uint64) []int {
	sc := auditChain()
	type openCall struct {
		e      *base.SentinelEntry
		exitAt uint64
	}
	var open []openCall
	admitted := make([]int, 20)
	for now := start + 3; now < start+200000; now += 10 {
		for len(open) > 0 && open[0].exitAt <= now {
			clk.setMs(open[0].exitAt)
			open[0].e.Exit()
			open = open[1:]
		}
		clk.setMs(now)
		if e := auditEnter(sc, res); e != nil {
			admitted[(now-start)/10000]++
			open = append(open, openCall{e, now + 9968})
		}
	}
	for _, o := range open {
		o.e.Exit()
	}
	return admitted
}

// A warm-up rule that counts per 10 s (the length of the resource's whole statistic) needs a statistic
// of its own: in the shared one the first write of a new interval - the Exit of a call that took a
// while is enough - takes the slot of the oldest bucket of the previous interval, the rule sees "nothing
// passed" and never leaves the cold rate. generateStatFor knows that. But when the rule is loaded as the
// successor of a Direct rule with the same StatIntervalInMs (an operator switches the resource from a
// plain limit to a warm-up limit), buildResourceTrafficShapingController hands it the statistic of the
// old rule - the shared one - and generateStatFor is never asked.
func TestAuditWarmUpRuleThatReplacesADirectRuleWithA10sIntervalNeverWarmsUp(t *testing.T) {
	clk := auditUseClock(t)
	const period = 60 // seconds
	warmUp := func(res string) *Rule {
		return &Rule{Resource: res, TokenCalculateStrategy: WarmUp, ControlBehavior: Reject,
			Threshold: 30, WarmUpPeriodSec: period, WarmUpColdFactor: 3, StatIntervalInMs: 10000}
	}

	// control: the rule loaded on its own
	start := auditEpochMs
	clk.setMs(start - 5000)
	if _, err := LoadRules([]*Rule{warmUp("audit-f1-alone")}); err != nil {
		t.Fatal(err)
	}
	alone := auditLongCalls(clk, "audit-f1-alone", start)

	// the same rule, loaded where a Direct rule with the same interval was in force
	start += 1000000
	clk.setMs(start - 5000)
	direct := &Rule{Resource: "audit-f1-switched", TokenCalculateStrategy: Direct, ControlBehavior: Reject,
		Threshold: 30, StatIntervalInMs: 10000}
	if _, err := LoadRules([]*Rule{direct}); err != nil {
		t.Fatal(err)
	}
	if _, err := LoadRules([]*Rule{warmUp("audit-f1-switched")}); err != nil {
		t.Fatal(err)
	}
	switched := auditLongCalls(clk, "audit-f1-switched", start)

	t.Logf("admitted per 10 s, rule loaded on its own:         %v", alone)
	t.Logf("admitted per 10 s, rule loaded after a Direct rule: %v", switched)
	if alone[len(alone)-1] != 30 {
		t.Fatalf("control run broken: the rule loaded on its own admits %d per 10 s at the end, expected 30", alone[len(alone)-1])
	}
	// 2*period+4 s = 124 s of saturating demand are over after interval 12
	for i := 13; i < len(switched); i++ {
		if switched[i] < 27 {
			t.Fatalf("warm-up rule {Threshold 30 per 10 s, WarmUpPeriodSec %d, cold factor 3} loaded in place of a Direct rule with the same "+
				"StatIntervalInMs: after %d s of saturating demand (calls take 9.97 s) it admits %d per 10 s, in every interval %v - it never "+
				"leaves the cold rate threshold/coldFactor = 10. The property demands that the full threshold (30) is reached after sustained "+
				"demand for the warm-up period; the same rule loaded on its own does so: %v",
				period, i*10, switched[i], switched, alone)
		}
	}
}

// ---------------------------------------------------------------------------------------------
// Finding 2
// ---------------------------------------------------------------------------------------------

// A steady demand BELOW the threshold, sustained for many warm-up periods, keeps being rejected: the
// bucket is refilled by the full threshold per interval while it is at or below the warning line, whatever
// passed, so each interval it gains threshold-passed tokens, climbs over the line into the cold zone and
// the allowed rate drops below the demand; the rule then drains it again, and so on for ever.
func TestAuditWarmUpSteadyDemandBelowThresholdIsRejectedForEver(t *testing.T) {
	clk := auditUseClock(t)
	const (
		res       = "audit-f2"
		threshold = 100
		period    = 10 // s
		gapMs     = 14 // one request every 14 ms: 71 or 72 per second
		seconds   = 2*period + 4 + 60
	)
	start := auditEpochMs + 3000000
	clk.setMs(start)
	rule := &Rule{Resource: res, TokenCalculateStrategy: WarmUp, ControlBehavior: Reject,
		Threshold: threshold, WarmUpPeriodSec: period, WarmUpColdFactor: 10}
	if _, err := LoadRules([]*Rule{rule}); err != nil {
		t.Fatal(err)
	}
	sc := auditChain()
	asked := make([]int, seconds)
	admitted := make([]int, seconds)
	for now := start; now < start+seconds*1000; now += gapMs {
		clk.setMs(now)
		s := (now - start) / 1000
		asked[s]++
		if e := auditEnter(sc, res); e != nil {
			admitted[s]++
			e.Exit()
		}
	}
	t.Logf("asked per second:    %v", asked)
	t.Logf("admitted per second: %v", admitted)
	var bad []string
	worst := threshold
	for s := 2*period + 4; s < seconds; s++ {
		if asked[s] > threshold {
			t.Fatalf("test broken: demand %d above the threshold", asked[s])
		}
		if admitted[s] < asked[s] {
			bad = append(bad, fmt.Sprintf("second %d: %d of %d", s, admitted[s], asked[s]))
			if admitted[s] < worst {
				worst = admitted[s]
			}
		}
	}
	if len(bad) > 0 {
		t.Fatalf("warm-up rule {Threshold %d, WarmUpPeriodSec %d, WarmUpColdFactor 10} under a steady demand of 71-72 single tokens per second "+
			"(below the threshold), sustained from the start: after 2*period+4 = %d s the rule still rejects requests in %d of the next 60 seconds, "+
			"down to %d admitted in a second (%v). The property demands that the admitted rate reaches the full threshold after sustained demand for "+
			"the warm-up period - a demand below that threshold must then pass - but the effective threshold keeps falling back below the demand, for ever.",
			threshold, period, 2*period+4, len(bad), worst, bad)
	}
}

// ---------------------------------------------------------------------------------------------
// Finding 3
// ---------------------------------------------------------------------------------------------

// auditBarrier holds every admitted request between the rule check and the recording of its pass until
// `want` requests have got that far (or a second of real time has gone by).
type auditBarrier struct {
	want    int32
	arrived int32
	once    sync.Once
	release chan struct{}
}

func (b *auditBarrier) Order() uint32 { return 1 } // before stat.DefaultSlot (1000)
func (b *auditBarrier) OnEntryPassed(_ *base.EntryContext) {
	if atomic.AddInt32(&b.arrived, 1) >= b.want {
		b.once.Do(func() { close(b.release) })
	}
	select {
	case <-b.release:
	case <-time.After(time.Second):
	}
}
func (b *auditBarrier) OnEntryBlocked(_ *base.EntryContext, _ *base.BlockError) {}
func (b *auditBarrier) OnCompleted(_ *base.EntryContext)                        {}

// The check of a Reject rule reads the pass count, the pass is recorded later (in the statistic slot).
// Callers that are between the two at the same time are all judged against the same count: after an
// idle time, 40 concurrent callers of a cold warm-up rule with threshold 10 are all admitted in the
// same millisecond.
func TestAuditWarmUpConcurrentCallersAfterIdleAllPassTheColdRule(t *testing.T) {
	clk := auditUseClock(t)
	const (
		res       = "audit-f3"
		threshold = 10
		callers   = 40
	)
	start := auditEpochMs + 5000000
	clk.setMs(start)
	rule := &Rule{Resource: res, TokenCalculateStrategy: WarmUp, ControlBehavior: Reject,
		Threshold: threshold, WarmUpPeriodSec: 10, WarmUpColdFactor: 5}
	if _, err := LoadRules([]*Rule{rule}); err != nil {
		t.Fatal(err)
	}
	// the resource is idle for a minute, then 40 callers arrive in the same millisecond
	clk.setMs(start + 60000)
	barrier := &auditBarrier{want: callers, release: make(chan struct{})}
	sc := auditChain(barrier)
	var admitted int32
	var wg sync.WaitGroup
	for i := 0; i < callers; i++ {
		wg.Add(1)
		go func() {
			defer wg.Done()
			if e := auditEnter(sc, res); e != nil {
				atomic.AddInt32(&admitted, 1)
				e.Exit()
			}
		}()
	}
	wg.Wait()
	// what one caller after the other gets in the same situation
	clk.setMs(start + 180000)
	sequential := 0
	plain := auditChain()
	for i := 0; i < callers; i++ {
		if e := auditEnter(plain, res); e != nil {
			sequential++
			e.Exit()
		}
	}
	t.Logf("admitted: %d of %d concurrent callers; %d of %d callers one after the other", admitted, callers, sequential, callers)
	if admitted > threshold {
		t.Fatalf("warm-up rule {Threshold %d, WarmUpPeriodSec 10, WarmUpColdFactor 5} after a minute without traffic: %d callers that pass the "+
			"rule check before any of them has recorded its pass are ALL admitted within one millisecond (admitted %d; one after the other: %d). "+
			"The property demands that the admitted rate starts no higher than about threshold/coldFactor = 2 after idle and never exceeds the "+
			"threshold (%d).", threshold, callers, admitted, sequential, threshold)
	}
}
