package circuitbreaker_test

import (
	"errors"
	"fmt"
	"sync"
	"testing"
	"time"

	sentinel "github.com/alibaba/sentinel-golang/api"
	"github.com/alibaba/sentinel-golang/core/base"
	"github.com/alibaba/sentinel-golang/core/circuitbreaker"
	"github.com/alibaba/sentinel-golang/util"
)

const auditRes = "zz-audit-c12-probe-count-survives-exit-hook"

// auditPauseSlot is a statistic slot that decides nothing. It only holds a blocked request that carries the
// argument "pause-me" for a moment between the rule checks and its exit (a goroutine that is descheduled
// there), so that the test can place the steps of another request in between.
type auditPauseSlot struct {
	reached chan struct{}
	release chan struct{}
}

func (s *auditPauseSlot) Order() uint32                      { return 9000 }
func (s *auditPauseSlot) OnEntryPassed(_ *base.EntryContext) {}
func (s *auditPauseSlot) OnCompleted(_ *base.EntryContext)   {}
func (s *auditPauseSlot) OnEntryBlocked(ctx *base.EntryContext, _ *base.BlockError) {
	for _, a := range ctx.Input.Args {
		if a == "pause-me" {
			s.reached <- struct{}{}
			<-s.release
		}
	}
}

// auditListener records the transitions of the breakers of auditRes as "<rule id>:<prev>-><new>".
type auditListener struct {
	mu     sync.Mutex
	events []string
}

func (l *auditListener) add(rule circuitbreaker.Rule, prev circuitbreaker.State, to string) {
	if rule.Resource != auditRes {
		return
	}
	l.mu.Lock()
	l.events = append(l.events, fmt.Sprintf("%s:%s->%s", rule.Id, prev.String(), to))
	l.mu.Unlock()
}

func (l *auditListener) all() []string {
	l.mu.Lock()
	defer l.mu.Unlock()
	return append([]string(nil), l.events...)
}

// of returns the transitions of one rule.
func (l *auditListener) of(id string) []string {
	var ret []string
	for _, e := range l.all() {
		if len(e) > len(id) && e[:len(id)+1] == id+":" {
			ret = append(ret, e[len(id)+1:])
		}
	}
	return ret
}

func (l *auditListener) lastOf(id string) string {
	evs := l.of(id)
	if len(evs) == 0 {
		return ""
	}
	return evs[len(evs)-1]
}

func (l *auditListener) OnTransformToClosed(prev circuitbreaker.State, rule circuitbreaker.Rule) {
	l.add(rule, prev, "Closed")
}

func (l *auditListener) OnTransformToOpen(prev circuitbreaker.State, rule circuitbreaker.Rule, _ interface{}) {
	l.add(rule, prev, "Open")
}

func (l *auditListener) OnTransformToHalfOpen(prev circuitbreaker.State, rule circuitbreaker.Rule) {
	l.add(rule, prev, "HalfOpen")
}

// TestAuditProbeCountSurvivesExitHookRollback
//
// Two rules on one resource, nothing but the library's own slots decide:
//
//	X: ErrorCount, threshold 1, RetryTimeoutMs 1000, ProbeNum 2  ("the circuit breaker is closed only after
//	                                                              the number of probes is reached")
//	Y: ErrorCount, threshold 2, RetryTimeoutMs 1000, no probe number
//
//	t0        requests F1 and F2 are admitted (both breakers closed); F1 fails           X: Closed -> Open
//	t0+500    F2 fails                                                                   Y: Closed -> Open
//	t0+1499   request A: X.TryPass takes X Open -> HalfOpen (passage 1 of X, A carries the exit hook);
//	          Y.TryPass refuses (Y's retry timeout ends at t0+1500): A is blocked - and is slow to exit
//	t0+1500   request B: X is half-open with a probe number: admitted; Y Open -> HalfOpen: B is admitted.
//	          B completes successfully:  X has 1 of its 2 required successful probes;    Y: HalfOpen -> Closed
//	          A exits; its hook hands X's passage 1 back                                 X: HalfOpen -> Open
//	t0+2500   request C: X Open -> HalfOpen (passage 2 of X); Y is closed: admitted.
//	          C completes successfully: the FIRST successful probe of X's passage 2
//
// X's passage 2 needs two successful probes, so X must still be half-open after C. But the exit hook is the one
// transition out of half-open that neither resets the probe count nor is ordered with the counting (probeMu):
// B's success of passage 1 is still in the count, C makes it "2", and X closes.
func TestAuditProbeCountSurvivesExitHookRollback(t *testing.T) {
	clock := util.NewMockClock()
	util.SetClock(clock)
	defer util.SetClock(util.NewRealClock())

	lis := &auditListener{}
	circuitbreaker.ClearStateChangeListeners()
	circuitbreaker.RegisterStateChangeListeners(lis)
	defer circuitbreaker.ClearStateChangeListeners()

	pause := &auditPauseSlot{reached: make(chan struct{}), release: make(chan struct{})}
	sc := base.NewSlotChain()
	sc.AddRuleCheckSlot(circuitbreaker.DefaultSlot)
	sc.AddStatSlot(circuitbreaker.DefaultMetricStatSlot)
	sc.AddStatSlot(pause)

	if _, err := circuitbreaker.LoadRulesOfResource(auditRes, []*circuitbreaker.Rule{
		{Id: "X", Resource: auditRes, Strategy: circuitbreaker.ErrorCount, RetryTimeoutMs: 1000,
			MinRequestAmount: 1, StatIntervalMs: 600000, Threshold: 1, ProbeNum: 2},
		{Id: "Y", Resource: auditRes, Strategy: circuitbreaker.ErrorCount, RetryTimeoutMs: 1000,
			MinRequestAmount: 1, StatIntervalMs: 600000, Threshold: 2},
	}); err != nil {
		t.Fatalf("loading the rules: %v", err)
	}
	defer circuitbreaker.ClearRulesOfResource(auditRes)

	enter := func(name string, opts ...sentinel.EntryOption) *base.SentinelEntry {
		e, blk := sentinel.Entry(auditRes, append(opts, sentinel.WithSlotChain(sc))...)
		if blk != nil {
			t.Fatalf("setup: request %s was blocked (%v); transitions so far: %v", name, blk, lis.all())
		}
		return e
	}
	expect := func(step, id, want string) {
		if got := lis.lastOf(id); got != want {
			t.Fatalf("setup, %s: the last transition of breaker %s should be %s; transitions so far: %v", step, id, want, lis.all())
		}
	}

	// t0
	f1 := enter("F1")
	f2 := enter("F2")
	f1.Exit(base.WithError(errors.New("biz error")))
	expect("F1 failed", "X", "Closed->Open")
	expect("F1 failed", "Y", "")
	// t0+500
	clock.Sleep(500 * time.Millisecond)
	f2.Exit(base.WithError(errors.New("biz error")))
	expect("F2 failed", "X", "Closed->Open")
	expect("F2 failed", "Y", "Closed->Open")

	// t0+1499: A starts passage 1 of X, is blocked by Y and is slow to exit
	clock.Sleep(999 * time.Millisecond)
	aDone := make(chan *base.BlockError, 1)
	go func() {
		e, blk := sentinel.Entry(auditRes, sentinel.WithSlotChain(sc), sentinel.WithArgs("pause-me"))
		if e != nil {
			e.Exit()
		}
		aDone <- blk
	}()
	select {
	case <-pause.reached:
	case <-time.After(5 * time.Second):
		t.Fatalf("setup: request A did not arrive as a blocked request; transitions so far: %v", lis.all())
	}
	expect("A checked", "X", "Open->HalfOpen")
	expect("A checked", "Y", "Closed->Open")

	// t0+1500: B is a probe of X's passage 1 (and the probe of Y); it succeeds
	clock.Sleep(1 * time.Millisecond)
	b := enter("B")
	expect("B admitted", "Y", "Open->HalfOpen")
	b.Exit()
	expect("B succeeded", "Y", "HalfOpen->Closed")
	expect("B succeeded (1 of 2 probes)", "X", "Open->HalfOpen")

	// A exits: X's passage 1 is handed back
	pause.release <- struct{}{}
	if blk := <-aDone; blk == nil {
		t.Fatalf("setup: request A should have been blocked by breaker Y; transitions so far: %v", lis.all())
	}
	expect("A exited", "X", "HalfOpen->Open")

	// t0+2500: C starts passage 2 of X and succeeds - the first successful probe of that passage
	clock.Sleep(1000 * time.Millisecond)
	c := enter("C")
	expect("C admitted", "X", "Open->HalfOpen")
	c.Exit()

	if got := lis.lastOf("X"); got == "HalfOpen->Closed" {
		t.Fatalf("breaker X has ProbeNum 2, its second passage to half-open has seen ONE successful probe (request C), "+
			"and yet X was closed: the successful probe B of X's FIRST passage - a passage that the exit hook of the blocked "+
			"request A ended with HalfOpen->Open - is still in the probe count. Every transition out of half-open must "+
			"end the count of that passage; a passage is closed by the required number of its OWN successful probes. "+
			"Transitions of X: %v; of Y: %v", lis.of("X"), lis.of("Y"))
	}
	expect("C succeeded (1 of 2 probes)", "X", "Open->HalfOpen")
}
