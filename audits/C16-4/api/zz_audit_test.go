package api

// Audit 4 of the slot chain property found NO new violation. This file holds no finding: it is the
// randomized model the audit checked the chain against, kept so that the claim can be re-run. Both
// tests PASS on the code as it is. See AUDIT.md.

import (
	"fmt"
	"math/rand"
	"sort"
	"sync"
	"testing"

	"github.com/alibaba/sentinel-golang/core/base"
)

type fzLog struct {
	mu sync.Mutex
	ev map[int][]string
}

func (l *fzLog) add(entry int, s string) {
	l.mu.Lock()
	l.ev[entry] = append(l.ev[entry], s)
	l.mu.Unlock()
}

func eid(ctx *base.EntryContext) int { return ctx.Input.Args[0].(int) }

type fzPrep struct {
	id    int
	order uint32
	l     *fzLog
	mode  func(entry int) int
}

func (s *fzPrep) Order() uint32 { return s.order }
func (s *fzPrep) Prepare(ctx *base.EntryContext) {
	e := eid(ctx)
	s.l.add(e, fmt.Sprintf("P%d", s.id))
	if s.mode(e) == 1 {
		panic("prep")
	}
}

type fzRule struct {
	id    int
	order uint32
	l     *fzLog
	mode  func(entry int) int
	own   *base.TokenResult
	own2  *base.TokenResult
	rule  base.SentinelRule
}

type fzR struct{ n string }

func (r *fzR) String() string       { return r.n }
func (r *fzR) ResourceName() string { return r.n }

func (s *fzRule) Order() uint32 { return s.order }
func (s *fzRule) Check(ctx *base.EntryContext) *base.TokenResult {
	e := eid(ctx)
	s.l.add(e, fmt.Sprintf("R%d", s.id))
	msg := fmt.Sprintf("s%d-e%d", s.id, e)
	switch s.mode(e) {
	case 0:
		return nil
	case 1:
		return base.NewTokenResultPass()
	case 2:
		return ctx.RuleCheckResult
	case 3:
		ctx.RuleCheckResult.ResetToBlockedWithCause(base.BlockTypeFlow, msg, s.rule, e)
		return ctx.RuleCheckResult
	case 4:
		return base.NewTokenResultBlockedWithCause(base.BlockTypeIsolation, msg, s.rule, e)
	case 5:
		return s.own
	case 6:
		s.own2.ResetToBlockedWithMessage(base.BlockTypeSystemFlow, msg)
		return s.own2
	case 7:
		panic("rule")
	case 8:
		return base.NewTokenResultShouldWait(1)
	case 9:
		ctx.RuleCheckResult.ResetToBlockedWithCause(base.BlockTypeFlow, "changed-mind", s.rule, e)
		return nil
	case 10:
		s.own2.ResetToPass()
		return s.own2
	case 11:
		ctx.RuleCheckResult.ResetToBlockedWithMessage(base.BlockTypeFlow, msg)
		return ctx.RuleCheckResult
	}
	return nil
}

type fzStat struct {
	id    int
	order uint32
	l     *fzLog
	mode  func(entry int) int
}

func (s *fzStat) Order() uint32 { return s.order }
func (s *fzStat) OnEntryPassed(ctx *base.EntryContext) {
	e := eid(ctx)
	s.l.add(e, fmt.Sprintf("SP%d", s.id))
	if s.mode(e) == 1 {
		panic("statpass")
	}
}
func (s *fzStat) OnEntryBlocked(ctx *base.EntryContext, be *base.BlockError) {
	e := eid(ctx)
	s.l.add(e, fmt.Sprintf("SB%d:%s", s.id, desc(be)))
	if s.mode(e) == 1 {
		panic("statblock")
	}
}
func (s *fzStat) OnCompleted(ctx *base.EntryContext) {
	e := eid(ctx)
	s.l.add(e, fmt.Sprintf("SC%d", s.id))
	if s.mode(e) == 2 {
		panic("statdone")
	}
}

func desc(be *base.BlockError) string {
	if be == nil {
		return "<nil>"
	}
	return fmt.Sprintf("%v|%s|%v|%v", be.BlockType(), be.BlockMsg(), be.TriggeredRule(), be.TriggeredValue())
}

var fzBlocked, fzPassed, fzHeldChecked int64

func TestAuditModelSequentialNoFinding(t *testing.T) {
	defer func() {
		t.Logf("entries blocked=%d admitted=%d, block errors re-checked at the end=%d", fzBlocked, fzPassed, fzHeldChecked)
		if fzBlocked == 0 || fzPassed == 0 || fzHeldChecked == 0 {
			t.Errorf("the model is vacuous")
		}
	}()
	for seed := int64(0); seed < 400; seed++ {
		runFuzz(t, seed, false)
		if t.Failed() {
			t.Fatalf("seed %d", seed)
		}
	}
}

func TestAuditModelConcurrentNoFinding(t *testing.T) {
	for seed := int64(0); seed < 60; seed++ {
		runFuzz(t, seed, true)
		if t.Failed() {
			t.Fatalf("seed %d", seed)
		}
	}
}

func runFuzz(t *testing.T, seed int64, conc bool) {
	rnd := rand.New(rand.NewSource(seed))
	l := &fzLog{ev: map[int][]string{}}
	sc := base.NewSlotChain()
	panicky := rnd.Intn(2) == 0
	mk := func(id int, choices []int) func(int) int {
		s := rnd.Int63()
		return func(e int) int {
			r := rand.New(rand.NewSource(s + int64(e)*7919 + int64(id)))
			return choices[r.Intn(len(choices))]
		}
	}
	var preps []*fzPrep
	var rules []*fzRule
	var stats []*fzStat
	np, nr, ns := rnd.Intn(4), rnd.Intn(6), rnd.Intn(5)
	for i := 0; i < np; i++ {
		ch := []int{0, 0, 0, 0, 0, 0}
		if panicky {
			ch = append(ch, 1)
		}
		p := &fzPrep{id: i, order: uint32(rnd.Intn(3)), l: l, mode: mk(i, ch)}
		preps = append(preps, p)
		sc.AddStatPrepareSlot(p)
	}
	for i := 0; i < nr; i++ {
		ch := []int{0, 0, 1, 2, 2, 3, 4, 5, 8, 9, 10, 11, 0, 1, 2, 0, 0}
		if !conc {
			ch = append(ch, 6)
		}
		if panicky {
			ch = append(ch, 7)
		}
		r := &fzRule{id: i, order: uint32(rnd.Intn(3)), l: l, mode: mk(100+i, ch), rule: &fzR{fmt.Sprintf("rule%d", i)}}
		r.own = base.NewTokenResultBlockedWithCause(base.BlockTypeCircuitBreaking, fmt.Sprintf("s%d", i), r.rule, "own")
		r.own2 = base.NewTokenResultPass()
		if conc {
			// own2 is mutated by modes 6 and 10; keep only reading modes in concurrent runs
			chc := []int{}
			for _, c := range ch {
				if c != 10 && c != 6 {
					chc = append(chc, c)
				}
			}
			r.mode = mk(100+i, chc)
		}
		rules = append(rules, r)
		sc.AddRuleCheckSlot(r)
	}
	for i := 0; i < ns; i++ {
		ch := []int{0, 0, 0, 0, 0, 0, 0, 0}
		if panicky {
			ch = append(ch, 1, 2)
		}
		s := &fzStat{id: i, order: uint32(rnd.Intn(3)), l: l, mode: mk(200+i, ch)}
		stats = append(stats, s)
		sc.AddStatSlot(s)
	}
	// expected order
	sp := append([]*fzPrep{}, preps...)
	sort.SliceStable(sp, func(i, j int) bool { return sp[i].order < sp[j].order })
	sr := append([]*fzRule{}, rules...)
	sort.SliceStable(sr, func(i, j int) bool { return sr[i].order < sr[j].order })
	ss := append([]*fzStat{}, stats...)
	sort.SliceStable(ss, func(i, j int) bool { return ss[i].order < ss[j].order })

	type expect struct {
		events    []string // entry phase
		exit      []string
		blocked   bool
		blockDesc string
	}
	compute := func(e int) expect {
		var x expect
		for _, p := range sp {
			x.events = append(x.events, fmt.Sprintf("P%d", p.id))
			if p.mode(e) == 1 {
				return x
			}
		}
		blocked := false
		armed := ""
		for _, r := range sr {
			x.events = append(x.events, fmt.Sprintf("R%d", r.id))
			m := r.mode(e)
			if m == 7 {
				return x
			}
			msg := fmt.Sprintf("s%d-e%d", r.id, e)
			switch m {
			case 9:
				armed = fmt.Sprintf("%v|%s|%v|%v", base.BlockTypeFlow, "changed-mind", r.rule, e)
				continue
			case 2:
				if armed == "" {
					continue
				}
				x.blockDesc = armed
			case 3:
				x.blockDesc = fmt.Sprintf("%v|%s|%v|%v", base.BlockTypeFlow, msg, r.rule, e)
			case 4:
				x.blockDesc = fmt.Sprintf("%v|%s|%v|%v", base.BlockTypeIsolation, msg, r.rule, e)
			case 5:
				x.blockDesc = fmt.Sprintf("%v|%s|%v|%v", base.BlockTypeCircuitBreaking, fmt.Sprintf("s%d", r.id), r.rule, "own")
			case 6:
				x.blockDesc = fmt.Sprintf("%v|%s|%v|%v", base.BlockTypeSystemFlow, msg, nil, nil)
			case 11:
				x.blockDesc = fmt.Sprintf("%v|%s|%v|%v", base.BlockTypeFlow, msg, nil, nil)
			default:
				continue
			}
			blocked = true
			break
		}
		for _, s := range ss {
			if blocked {
				x.events = append(x.events, fmt.Sprintf("SB%d:%s", s.id, x.blockDesc))
			} else {
				x.events = append(x.events, fmt.Sprintf("SP%d", s.id))
			}
			if s.mode(e) == 1 {
				// panic in stat phase: admitted; completion is reported unless ctx says blocked
				if !blocked {
					for _, s2 := range ss {
						x.exit = append(x.exit, fmt.Sprintf("SC%d", s2.id))
						if s2.mode(e) == 2 {
							break
						}
					}
				}
				return x
			}
		}
		x.blocked = blocked
		if !blocked {
			for _, s2 := range ss {
				x.exit = append(x.exit, fmt.Sprintf("SC%d", s2.id))
				if s2.mode(e) == 2 {
					break
				}
			}
		}
		return x
	}

	type held struct {
		be   *base.BlockError
		desc string
		e    int
	}
	var hmu sync.Mutex
	var helds []held
	one := func(e int, r *rand.Rand, pend *[]*base.SentinelEntry) {
		defer func() {
			if p := recover(); p != nil {
				t.Errorf("seed %d entry %d: panic reached caller: %v", seed, e, p)
			}
		}()
		x := compute(e)
		en, be := Entry("res", WithSlotChain(sc), WithArgs(e))
		if x.blocked {
			if be == nil {
				t.Errorf("seed %d entry %d: expected block %s, got pass", seed, e, x.blockDesc)
				return
			}
			if desc(be) != x.blockDesc {
				t.Errorf("seed %d entry %d: block %s want %s", seed, e, desc(be), x.blockDesc)
			}
			hmu.Lock()
			fzBlocked++
			helds = append(helds, held{be, x.blockDesc, e})
			hmu.Unlock()
		} else {
			if be != nil {
				t.Errorf("seed %d entry %d: expected pass, got block %s", seed, e, desc(be))
				return
			}
			hmu.Lock()
			fzPassed++
			hmu.Unlock()
			if r.Intn(2) == 0 {
				en.Exit()
			} else {
				*pend = append(*pend, en)
				if len(*pend) > 3 {
					k := r.Intn(len(*pend))
					(*pend)[k].Exit()
					*pend = append((*pend)[:k], (*pend)[k+1:]...)
				}
			}
		}
	}
	M := 40
	if conc {
		var wg sync.WaitGroup
		for g := 0; g < 4; g++ {
			wg.Add(1)
			go func(g int) {
				defer wg.Done()
				r := rand.New(rand.NewSource(seed*31 + int64(g)))
				var pend []*base.SentinelEntry
				for i := 0; i < M; i++ {
					one(g*1000+i, r, &pend)
				}
				for _, p := range pend {
					p.Exit()
				}
			}(g)
		}
		wg.Wait()
	} else {
		var pend []*base.SentinelEntry
		for i := 0; i < M; i++ {
			one(i, rnd, &pend)
		}
		for _, p := range pend {
			p.Exit()
			p.Exit()
		}
	}
	for _, h := range helds {
		fzHeldChecked++
		if desc(h.be) != h.desc {
			t.Errorf("seed %d entry %d: block error changed afterwards: %s was %s", seed, h.e, desc(h.be), h.desc)
		}
	}
	for e, evs := range l.ev {
		x := compute(e)
		want := append(append([]string{}, x.events...), x.exit...)
		if fmt.Sprint(evs) != fmt.Sprint(want) {
			t.Errorf("seed %d entry %d: events %v want %v", seed, e, evs, want)
		}
	}
}
