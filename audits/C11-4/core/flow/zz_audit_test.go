package flow_test

// Audit of the property "adaptive thresholds stay inside their configured envelope" (warm-up part).
// Both tests drive the library through its public API (api.Entry / flow.LoadRules) in virtual time.

import (
	"fmt"
	"math"
	"sync"
	"testing"
	"time"

	"github.com/alibaba/sentinel-golang/api"
	"github.com/alibaba/sentinel-golang/core/base"
	"github.com/alibaba/sentinel-golang/core/config"
	"github.com/alibaba/sentinel-golang/core/flow"
	"github.com/alibaba/sentinel-golang/logging"
	"github.com/alibaba/sentinel-golang/util"
)

// auditClock is a virtual clock: Sleep advances it (that is how a queued request "waits").
type auditClock struct {
	mu  sync.Mutex
	now time.Time
}

func (c *auditClock) Now() time.Time {
	c.mu.Lock()
	defer c.mu.Unlock()
	return c.now
}
func (c *auditClock) Sleep(d time.Duration) {
	if d > 0 {
		c.mu.Lock()
		c.now = c.now.Add(d)
		c.mu.Unlock()
	}
}
func (c *auditClock) CurrentTimeMillis() uint64 { return uint64(c.Now().UnixNano()) / 1e6 }
func (c *auditClock) CurrentTimeNano() uint64   { return uint64(c.Now().UnixNano()) }
func (c *auditClock) setMs(ms int64) {
	c.mu.Lock()
	c.now = time.Unix(0, ms*int64(time.Millisecond))
	c.mu.Unlock()
}

var (
	auditInitOnce sync.Once
	// virtual time only moves forward over the whole test binary (the global statistic nodes are shared);
	// it starts a day after the real time, on a multiple of one minute.
	auditNextStartMs = (time.Now().UnixNano()/1e6/60000 + 24*60) * 60000
	auditSeq         int
)

func auditInit() {
	auditInitOnce.Do(func() {
		conf := config.NewDefaultConfig()
		conf.Sentinel.Log.Logger = logging.NewConsoleLogger()
		conf.Sentinel.Log.Metric.FlushIntervalSec = 0
		conf.Sentinel.Stat.System.CollectIntervalMs = 0
		conf.Sentinel.Stat.System.CollectMemoryIntervalMs = 0
		conf.Sentinel.Stat.System.CollectCpuIntervalMs = 0
		conf.Sentinel.Stat.System.CollectLoadIntervalMs = 0
		if err := api.InitWithConfig(conf); err != nil {
			panic(err)
		}
		logging.ResetGlobalLoggerLevel(logging.ErrorLevel)
	})
}

// auditStart installs a fresh virtual clock and loads the rule under a resource name of its own.
func auditStart(t *testing.T, rule flow.Rule, totalMs int64) (*auditClock, string, int64) {
	auditInit()
	clk := &auditClock{}
	startMs := auditNextStartMs
	auditNextStartMs += (totalMs/60000 + 10) * 60000
	clk.setMs(startMs)
	util.SetClock(clk)
	auditSeq++
	rule.Resource = fmt.Sprintf("audit-c11-%d", auditSeq)
	if err := flow.IsValidRule(&rule); err != nil {
		t.Fatalf("the rule of the scenario must be a valid one: %v", err)
	}
	if _, err := flow.LoadRules([]*flow.Rule{&rule}); err != nil {
		t.Fatalf("LoadRules: %v", err)
	}
	return clk, rule.Resource, startMs
}

// closedLoopPerSecond is the simplest sustained demand there is: ONE caller that asks for one token,
// and as soon as it has got it (after the wait the library imposed, if any) asks for the next one; when it is
// rejected it tries again a millisecond later. It returns the tokens admitted in every second.
func closedLoopPerSecond(t *testing.T, rule flow.Rule, totalMs int64) []int {
	clk, res, startMs := auditStart(t, rule, totalMs)
	perSec := make([]int, totalMs/1000)
	for {
		if int64(clk.CurrentTimeMillis()) >= startMs+totalMs {
			break
		}
		e, b := api.Entry(res, api.WithTrafficType(base.Inbound))
		if b != nil {
			clk.Sleep(time.Millisecond)
			continue
		}
		// (the entry returns after the queueing time has been slept: this is the moment the token is used)
		if i := (int64(clk.CurrentTimeMillis()) - startMs) / 1000; i < int64(len(perSec)) {
			perSec[i]++
		}
		e.Exit()
	}
	return perSec
}

// FINDING 1
// A warm-up rule that paces with a queue (Throttling, MaxQueueingTimeMs > 0) and whose statistic interval
// gives it a statistic of ONE bucket (any StatIntervalInMs that is not a multiple of 500 ms, or is below 500 ms
// or above 10 s: 100, 200, 250, 1500, 60000 ...) never leaves its cold rate under a sustained demand.
func TestAuditWarmUpQueueingWithOwnSingleBucketStatNeverWarmsUp(t *testing.T) {
	const periodSec = 10
	const totalMs = 4 * periodSec * 1000 // four warm-up periods of uninterrupted demand

	// control: the same rule (100 tokens/s, cold factor 3, 10 s) counted per second does warm up under this
	// very demand, so the scenario and the harness are sound
	control := closedLoopPerSecond(t, flow.Rule{
		TokenCalculateStrategy: flow.WarmUp, ControlBehavior: flow.Throttling, MaxQueueingTimeMs: 500,
		Threshold: 100, StatIntervalInMs: 1000, WarmUpPeriodSec: periodSec, WarmUpColdFactor: 3,
	}, totalMs)
	if last := control[len(control)-2]; last < 95 {
		t.Fatalf("harness: the control rule (100 per 1000 ms) should have reached its threshold, admitted per second: %v", control)
	}

	for _, c := range []struct {
		intervalMs uint32
		threshold  float64
	}{
		{200, 20},   // 20 per 200 ms  = 100 tokens/s
		{1500, 150}, // 150 per 1500 ms = 100 tokens/s
	} {
		perSec := closedLoopPerSecond(t, flow.Rule{
			TokenCalculateStrategy: flow.WarmUp, ControlBehavior: flow.Throttling, MaxQueueingTimeMs: 500,
			Threshold: c.threshold, StatIntervalInMs: c.intervalMs, WarmUpPeriodSec: periodSec, WarmUpColdFactor: 3,
		}, totalMs)
		t.Logf("Threshold %v per %d ms (100/s), cold factor 3, warm-up 10 s, queue 500 ms; admitted per second: %v", c.threshold, c.intervalMs, perSec)
		// the last full seconds, 3 warm-up periods after the demand began
		worst := perSec[len(perSec)-2]
		for _, v := range perSec[len(perSec)-6 : len(perSec)-1] {
			if v < worst {
				worst = v
			}
		}
		if worst < 90 {
			t.Errorf("warm-up rule {Threshold %v per %d ms = 100/s, WarmUpPeriodSec 10, WarmUpColdFactor 3, Throttling, MaxQueueingTimeMs 500}: "+
				"after %d s of uninterrupted single-token demand (one caller asking for the next token as soon as it has one) it still admits only %d tokens/s, "+
				"the cold rate threshold/coldFactor = 33/s. The property demands that the rule reaches the full threshold (100/s) after sustained demand for the "+
				"warm-up period (10 s); the same rule counted per 1000 ms reaches %d/s. Admitted per second: %v",
				c.threshold, c.intervalMs, totalMs/1000, worst, control[len(control)-2], perSec)
		}
	}
}

// FINDING 2
// A warm-up rule with a practically unlimited threshold (math.MaxInt64, as "no limit") admits ONE token per
// second for ever: maxToken / warningToken do not fit into an int64, the cold rate comes out negative and is
// then raised to 1.
func TestAuditWarmUpPracticallyUnlimitedThresholdAdmitsOnePerSecondForEver(t *testing.T) {
	const totalMs = 40000
	rule := flow.Rule{
		TokenCalculateStrategy: flow.WarmUp, ControlBehavior: flow.Reject,
		Threshold: float64(math.MaxInt64), WarmUpPeriodSec: 10, WarmUpColdFactor: 3,
	}
	clk, res, startMs := auditStart(t, rule, totalMs)
	perSec := make([]int, totalMs/1000)
	// a steady demand of 10 single-token requests per second, one every 100 ms, for four warm-up periods
	for ms := int64(0); ms < totalMs; ms += 100 {
		clk.setMs(startMs + ms)
		e, b := api.Entry(res, api.WithTrafficType(base.Inbound))
		if b == nil {
			perSec[ms/1000]++
			e.Exit()
		}
	}
	t.Logf("Threshold MaxInt64, warm-up 10 s, cold factor 3, demand 10/s; admitted per second: %v", perSec)
	for sec := 3 * 10; sec < len(perSec); sec++ {
		if perSec[sec] < 10 {
			t.Fatalf("warm-up rule {Threshold %g (math.MaxInt64), WarmUpPeriodSec 10, WarmUpColdFactor 3, Reject}: in second %d of a steady demand of 10 single-token "+
				"requests per second only %d was admitted (and so in every second before). The threshold is about 9.2e18 per second and its cold rate about 3e18: "+
				"the property demands an effective threshold between threshold/coldFactor and the threshold, that reaches the full threshold after the warm-up period - "+
				"a demand of 10/s must pass untouched. Admitted per second: %v", rule.Threshold, sec, perSec[sec], perSec)
		}
	}
}
