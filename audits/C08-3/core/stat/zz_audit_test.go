package stat

import (
	"sync/atomic"
	"testing"
	"time"

	"github.com/alibaba/sentinel-golang/core/base"
	"github.com/alibaba/sentinel-golang/core/config"
	"github.com/alibaba/sentinel-golang/util"
)

// auditClock is a settable millisecond clock.
type auditClock struct{ ms uint64 }

func (c *auditClock) Now() time.Time {
	return time.Unix(0, int64(atomic.LoadUint64(&c.ms))*int64(time.Millisecond))
}
func (c *auditClock) Sleep(time.Duration)       {}
func (c *auditClock) CurrentTimeMillis() uint64 { return atomic.LoadUint64(&c.ms) }
func (c *auditClock) CurrentTimeNano() uint64 {
	return atomic.LoadUint64(&c.ms) * uint64(time.Millisecond)
}
func (c *auditClock) set(ms uint64) { atomic.StoreUint64(&c.ms, ms) }

// Finding 1: BaseStatNode.GetMaxAvg scales the largest count of one bucket of the UNDERLYING array
// (GetMaxOfSingleBucket walks the array's buckets) by the bucket length of the VIEW
// (sampleCount / intervalMs of the node's default metric). As soon as the view's buckets are longer than
// the array's - a geometry the reuse-validity check accepts - the "maximum per-second average of a
// bucket" is too small by the factor viewBucketLength / arrayBucketLength, it even drops below the
// plain window QPS.
func TestAuditMaxAvgUsesViewBucketLengthForArrayBuckets(t *testing.T) {
	clk := &auditClock{}
	old := util.CurrentClock()
	util.SetClock(clk)
	defer util.SetClock(old)

	arrN, arrI := config.GlobalStatisticSampleCountTotal(), config.GlobalStatisticIntervalMsTotal()
	const viewN, viewI = uint32(1), uint32(1000)
	if err := base.CheckValidityForReuseStatistic(viewN, viewI, arrN, arrI); err != nil {
		t.Skipf("view (%d,%d) is not valid on the configured array (%d,%d): %v", viewN, viewI, arrN, arrI, err)
	}
	arrBucket := arrI / arrN // 500 ms with the default configuration
	if viewI/viewN == arrBucket || viewI%(2*arrBucket) != 0 {
		t.Skipf("needs a view bucket twice the array bucket, array bucket is %d ms", arrBucket)
	}

	const T = uint64(1000000) // aligned to every bucket and cycle in play
	clk.set(T)
	n := NewBaseStatNode(viewN, viewI)

	// A perfectly even load: 100 completions in every array bucket of the one-second window.
	perBucket := int64(100)
	buckets := viewI / arrBucket
	for i := uint32(0); i < buckets; i++ {
		clk.set(T + uint64(i*arrBucket))
		n.AddCount(base.MetricEventComplete, perBucket)
	}
	clk.set(T + uint64(viewI) - 1) // still inside the window [T, T+1000)

	sum := n.GetSum(base.MetricEventComplete)
	qps := n.GetQPS(base.MetricEventComplete)
	if sum != perBucket*int64(buckets) {
		t.Fatalf("precondition: GetSum=%d, expected %d", sum, perBucket*int64(buckets))
	}
	// Reference: every bucket of the window - the array's %d ms ones as well as the view's single 1000 ms
	// one - carries the same rate, so the maximum per-bucket rate is that rate.
	want := float64(perBucket) * 1000 / float64(arrBucket)
	got := n.GetMaxAvg(base.MetricEventComplete)
	if got != want || got < qps {
		t.Fatalf("array (%d,%d ms), view (%d,%d ms): the window [T,T+%d) holds %d completions in every %d ms bucket, GetSum=%d GetQPS=%v, "+
			"but GetMaxAvg=%v. The property demands the statistic computed from the events in the aligned window: "+
			"the busiest bucket holds %d events in %d ms = %v/s (and a maximum of per-bucket rates can never be below the window's mean rate %v/s); "+
			"the node multiplies the count of a %d ms array bucket by sampleCount/intervalMs of the view, i.e. treats it as a %d ms bucket",
			arrN, arrI, viewN, viewI, viewI, perBucket, arrBucket, sum, qps, got, perBucket, arrBucket, want, qps, arrBucket, viewI/viewN)
	}
}
