package metric

import (
	"sync"
	"testing"
	"time"

	"github.com/alibaba/sentinel-golang/core/base"
	"github.com/alibaba/sentinel-golang/core/config"
	"github.com/alibaba/sentinel-golang/util"
)

// auditClock is a settable wall clock (util.MockClock can only go forwards).
type auditClock struct {
	mu sync.Mutex
	ms uint64
}

func (c *auditClock) set(ms uint64) { c.mu.Lock(); c.ms = ms; c.mu.Unlock() }
func (c *auditClock) Now() time.Time {
	c.mu.Lock()
	defer c.mu.Unlock()
	return time.Unix(0, int64(c.ms)*int64(time.Millisecond))
}
func (c *auditClock) Sleep(d time.Duration)     {}
func (c *auditClock) CurrentTimeMillis() uint64 { c.mu.Lock(); defer c.mu.Unlock(); return c.ms }
func (c *auditClock) CurrentTimeNano() uint64 {
	c.mu.Lock()
	defer c.mu.Unlock()
	return c.ms * uint64(time.Millisecond)
}

// The application is restarted (default configuration: no PID in the file name, same log directory)
// and the wall clock was set back by a few seconds in between (NTP correction). The new writer accepts
// items of seconds that the previous run's file already goes beyond. The searcher takes the files of
// both runs for one sequence with ascending seconds, so it stops in the old file and never gets to the
// items of the new writer.
func TestAuditRestartAfterClockStepBackHidesAcceptedItems(t *testing.T) {
	dir := t.TempDir()
	cfg := config.NewDefaultConfig()
	cfg.Sentinel.App.Name = "app"
	cfg.Sentinel.Log.Dir = dir
	cfg.Sentinel.Log.UsePid = false
	config.ResetGlobalConfig(cfg)

	clk := &auditClock{}
	util.SetClock(clk)
	defer util.SetClock(util.NewRealClock())

	const t0 = uint64(1790000000000) // 14:13:20 UTC, no local midnight within the next minute in any zone
	sec := func(n uint64) uint64 { return t0 + n*1000 }

	// First run: created at t0, writes the seconds t0+1 .. t0+10 (one item per second), then exits.
	clk.set(t0)
	w1i, err := NewDefaultMetricLogWriterOfApp(1<<20, 8, "app")
	if err != nil {
		t.Fatal(err)
	}
	w1 := w1i.(*DefaultMetricLogWriter)
	for n := uint64(1); n <= 10; n++ {
		clk.set(sec(n + 1))
		if err := w1.Write(sec(n), []*base.MetricItem{{Resource: "old", PassQps: n}}); err != nil {
			t.Fatal(err)
		}
	}
	_ = w1.Close()

	// The clock is set back to t0+5; second run: created at t0+5, writes t0+6 .. t0+12. Every one of
	// these is "not before the writer was created" and the seconds do not decrease.
	clk.set(sec(5))
	w2i, err := NewDefaultMetricLogWriterOfApp(1<<20, 8, "app")
	if err != nil {
		t.Fatal(err)
	}
	w2 := w2i.(*DefaultMetricLogWriter)
	defer w2.Close()
	for n := uint64(6); n <= 12; n++ {
		clk.set(sec(n + 1))
		if err := w2.Write(sec(n), []*base.MetricItem{{Resource: "new", PassQps: 100 + n}}); err != nil {
			t.Fatal(err)
		}
	}
	files, _ := listMetricFiles(dir, FormMetricFileName("app", false))
	if len(files) != 2 {
		t.Fatalf("setup: expected the files of the two runs, got %v", files)
	}

	s, err := NewDefaultMetricSearcher(dir, FormMetricFileName("app", false))
	if err != nil {
		t.Fatal(err)
	}
	// The three items of the second run in [t0+6, t0+8] were accepted and both files are retained.
	got, err := s.FindByTimeAndResource(sec(6), sec(8), "new")
	if err != nil {
		t.Fatalf("search failed: %v", err)
	}
	if len(got) != 3 {
		t.Errorf("FindByTimeAndResource([t0+6s, t0+8s], \"new\") returned %d items; the writer of the second run accepted 3 items "+
			"of resource \"new\" in these seconds (PassQps 106,107,108; seconds not decreasing, none before that writer was created) and their "+
			"file %s is retained: the property demands that every accepted item in the retained files can be read back", len(got), files[1])
	}
	got, err = s.FindFromTimeWithMaxLines(sec(6), 1000)
	if err != nil {
		t.Fatalf("search failed: %v", err)
	}
	for i := 1; i < len(got); i++ {
		if got[i].Timestamp < got[i-1].Timestamp {
			t.Errorf("FindFromTimeWithMaxLines(t0+6s, 1000): item %d (%s, t0+%ds) comes after item %d (%s, t0+%ds): "+
				"the property demands the items in timestamp order", i, got[i].Resource, (got[i].Timestamp-t0)/1000,
				i-1, got[i-1].Resource, (got[i-1].Timestamp-t0)/1000)
			break
		}
	}
}
