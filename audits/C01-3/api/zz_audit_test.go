package api

import (
	"sync"
	"testing"
	"time"

	"github.com/alibaba/sentinel-golang/core/base"
	"github.com/alibaba/sentinel-golang/core/stat"
	"github.com/alibaba/sentinel-golang/util"
)

// auditClock is a util.Clock whose reading is set by the test (it can also be set back).
type auditClock struct {
	mu sync.Mutex
	ms uint64
}

func (c *auditClock) set(ms uint64) { c.mu.Lock(); c.ms = ms; c.mu.Unlock() }
func (c *auditClock) get() uint64   { c.mu.Lock(); defer c.mu.Unlock(); return c.ms }
func (c *auditClock) Now() time.Time {
	return time.Unix(0, int64(c.get())*int64(time.Millisecond))
}
func (c *auditClock) Sleep(d time.Duration)     {}
func (c *auditClock) CurrentTimeMillis() uint64 { return c.get() }
func (c *auditClock) CurrentTimeNano() uint64   { return c.get() * uint64(time.Millisecond) }

// auditRtSlot remembers the response time the chain reports for the completed entry.
type auditRtSlot struct {
	rt uint64
	n  int
}

func (s *auditRtSlot) Order() uint32                                           { return 9000 }
func (s *auditRtSlot) OnEntryPassed(_ *base.EntryContext)                      {}
func (s *auditRtSlot) OnEntryBlocked(_ *base.EntryContext, _ *base.BlockError) {}
func (s *auditRtSlot) OnCompleted(ctx *base.EntryContext)                      { s.rt = ctx.Rt(); s.n++ }

// A clock that is set back by a few milliseconds (far less than a statistic bucket, let alone a
// window) between Entry and Exit: the completion of the entry is recorded with a response time of
// 2^64-5 ms in the context and of -5 ms in the node, so the response time total of the resource
// goes DOWN by the completion and the reported average / minimum response time is negative.
func TestAuditResponseTimeOfEntryExitedAfterSmallBackwardClockStep(t *testing.T) {
	// a reading later than process start, 300ms into a 500ms bucket: the step back stays inside the bucket
	base0 := uint64(time.Now().UnixNano())/uint64(time.Millisecond) + 3600*1000
	base0 = base0 - base0%1000 + 300
	clk := &auditClock{}
	clk.set(base0)
	util.SetClock(clk)
	defer util.SetClock(util.NewRealClock())

	rec := &auditRtSlot{}
	sc := base.NewSlotChain()
	sc.AddStatPrepareSlot(stat.DefaultResourceNodePrepareSlot)
	sc.AddStatSlot(stat.DefaultSlot)
	sc.AddStatSlot(rec)

	const res = "audit-rt-clock-step-back"
	// a first request that takes 20ms, to have an honest response time in the window
	e0, b0 := Entry(res, WithSlotChain(sc), WithTrafficType(base.Outbound))
	if b0 != nil {
		t.Fatalf("unexpected block: %v", b0)
	}
	clk.set(base0 + 20)
	e0.Exit()

	e, b := Entry(res, WithSlotChain(sc), WithTrafficType(base.Outbound))
	if b != nil {
		t.Fatalf("unexpected block: %v", b)
	}
	clk.set(base0 + 15) // the clock is corrected by -5ms while the request is in flight
	e.Exit()

	node := stat.GetResourceNode(res)
	if node == nil {
		t.Fatal("no node for the resource")
	}
	complete := node.GetSum(base.MetricEventComplete)
	rtSum := node.GetSum(base.MetricEventRt)
	conc := node.CurrentConcurrency()
	t.Logf("complete=%d rtSum=%d avgRT=%v concurrency=%d ctx.Rt() of 2nd entry=%d", complete, rtSum, node.AvgRT(), conc, rec.rt)
	if complete != 2 || conc != 0 || rec.n != 2 {
		t.Fatalf("setup: want 2 completions and concurrency 0, got complete=%d concurrency=%d recorded=%d", complete, conc, rec.n)
	}
	if rtSum < 20 {
		t.Errorf("the response time total of %q is %d ms after two completions, the first of which alone took 20 ms: "+
			"the entry exited after the clock was set back by 5 ms contributed a response time of %d ms to the node "+
			"(and Rt()=%d ms to the statistic slots); the property demands that every passed entry contributes one completion "+
			"with its own response time, which is a duration (>= 0), so a completion must never lower the total",
			res, rtSum, rtSum-20, rec.rt)
	}
	if rec.rt > uint64(1)<<62 {
		t.Errorf("the statistic slots were told that the second entry took %d ms (about 585 million years): "+
			"now-startTime underflowed in stat.Slot.OnCompleted; the property demands the entry's own response time", rec.rt)
	}
}
