package goframe

import (
	"errors"
	"net/http"
	"net/http/httptest"
	"strings"
	"testing"

	sentinel "github.com/alibaba/sentinel-golang/api"
	"github.com/gogf/gf/v2/frame/g"
	"github.com/gogf/gf/v2/net/ghttp"
)

// 8536153 keeps the error that an earlier middleware has noted on the request out of the entry by taking it
// OFF the request (r.SetError(nil)) for as long as the rest of the chain runs, and putting it back
// afterwards. The request error is goframe's channel between middlewares and handlers: everything that
// runs inside the adapter - a later middleware, the stock ghttp.MiddlewareHandlerResponse, the handler
// itself - now finds no error where there is one. The adapter is no longer transparent: the same chain
// answers differently with and without it.
//
// Chain: earlier (notes a soft failure, goes on) -> [SentinelMiddleware] -> ghttp.MiddlewareHandlerResponse
// -> handler (succeeds, writes nothing). MiddlewareHandlerResponse renders the request error as
// {"code":50,"message":"soft failure",...}. With the adapter in the chain the client gets {"code":0,...}.
func TestReviewEarlierErrorHiddenFromInnerChain(t *testing.T) {
	if err := sentinel.InitDefault(); err != nil {
		t.Fatalf("Unexpected error: %+v", err)
	}
	earlier := func(r *ghttp.Request) {
		r.SetError(errors.New("soft failure"))
		r.Middleware.Next()
	}
	var seenByHandler [2]error
	serve := func(idx int, name string, mws ...ghttp.HandlerFunc) string {
		s := g.Server(name)
		s.SetRouteOverWrite(true)
		s.SetDumpRouterMap(false)
		s.Group("/", func(group *ghttp.RouterGroup) {
			group.Middleware(mws...)
			group.GET("/zzreview", func(r *ghttp.Request) {
				seenByHandler[idx] = r.GetError()
			})
		})
		s.Start()
		req := httptest.NewRequest(http.MethodGet, "/zzreview", nil)
		w := httptest.NewRecorder()
		s.ServeHTTP(w, req)
		return strings.TrimSpace(w.Body.String())
	}

	without := serve(0, "zzreview-without-adapter", earlier, ghttp.MiddlewareHandlerResponse)
	with := serve(1, "zzreview-with-adapter", earlier, SentinelMiddleware(), ghttp.MiddlewareHandlerResponse)

	if !strings.Contains(without, "soft failure") {
		t.Fatalf("precondition: without the adapter the response should carry the earlier error, got %s", without)
	}
	if with != without {
		t.Errorf("the adapter changes what the rest of the chain sees: an earlier middleware noted an error on the request;\n"+
			"without SentinelMiddleware the chain answers %s\n"+
			"with SentinelMiddleware it answers    %s\n"+
			"(handler saw r.GetError() = %v without the adapter, %v with it). The error should stay visible on the request; "+
			"only the entry should not be charged with it.",
			without, with, seenByHandler[0], seenByHandler[1])
	}
}
