package outlier

import (
	"testing"
	"time"

	"github.com/alibaba/sentinel-golang/core/circuitbreaker"
)

// a3d68fb (and a473b37 before it) void the recycle schedule of a resource when a load changes its rule, so
// that no timer made for the nodes ejected under the old rule acts on the nodes of the new one. The schedule
// is made by an asynchronous consumer of recyclerCh, though, and a3d68fb only covers the consumer running
// BEFORE the next load (in the gap without a rule). A task that the slot queued under the old rule and that
// the consumer takes AFTER the load (LoadRules that replaces rule A by rule B in one step is enough) arrives
// behind the voiding: the node ejected under A is scheduled in the new epoch with B's interval, and B's node
// breaker of that node - which was never ejected under B - is removed when the timer fires.
//
// The test plays the delayed consumer by putting the task that the check under rule A had queued into the
// channel after the load.
func TestReviewRecycleTaskQueuedUnderReplacedRuleIsScheduledUnderTheNewOne(t *testing.T) {
	const res = "zzreview.recycle"
	const node = "10.0.0.1:8080"
	defer func() { _ = ClearRules() }()

	ruleA := &Rule{
		Rule: &circuitbreaker.Rule{Resource: res, Strategy: circuitbreaker.ErrorCount, RetryTimeoutMs: 60000,
			MinRequestAmount: 1, StatIntervalMs: 10000, Threshold: 1.0},
		MaxEjectionPercent: 1.0, RecycleIntervalS: 600,
	}
	ruleB := &Rule{
		Rule: &circuitbreaker.Rule{Resource: res, Strategy: circuitbreaker.ErrorCount, RetryTimeoutMs: 60000,
			MinRequestAmount: 1, StatIntervalMs: 10000, Threshold: 100.0},
		MaxEjectionPercent: 1.0, RecycleIntervalS: 1,
	}
	if _, err := LoadRules([]*Rule{ruleA}); err != nil {
		t.Fatal(err)
	}
	addNodeBreakerOfResource(res, node)
	// (under rule A the node fails, is ejected, and a check finds it ejected: task{[node], res} is queued)

	// rule A is replaced by rule B; the node keeps a breaker, built for B, closed
	if _, err := LoadRules([]*Rule{ruleB}); err != nil {
		t.Fatal(err)
	}
	if b := getNodeBreakersOfResource(res)[node]; b == nil || b.CurrentState() != circuitbreaker.Closed {
		t.Fatalf("precondition: the node should have a closed breaker under rule B, has %v", b)
	}

	// only now the consumer gets to the task queued under rule A
	recyclerCh <- task{[]string{node}, res}

	time.Sleep(1500 * time.Millisecond)
	if b := getNodeBreakersOfResource(res)[node]; b == nil {
		t.Errorf("the node breaker of %s under the rule in force was removed by a recycle timer although the node was never "+
			"ejected under that rule: the timer was armed from a task queued under the replaced rule and consumed after the load, "+
			"behind voidRecycleSchedule. A node should be recycled only RecycleIntervalS after it was found ejected under the rule in force.", node)
	}
}
