package file

import (
	"os"
	"path/filepath"
	"sync"
	"testing"
	"time"

	"github.com/alibaba/sentinel-golang/ext/datasource"
)

// reviewRecorder is a property handler that remembers the last content it was handed.
type reviewRecorder struct {
	mu   sync.Mutex
	last string
	seen []string
}

func (r *reviewRecorder) handler() datasource.PropertyHandler {
	return datasource.NewDefaultPropertyHandler(
		func(src []byte) (interface{}, error) { return string(src), nil },
		func(data interface{}) error {
			r.mu.Lock()
			defer r.mu.Unlock()
			s, _ := data.(string)
			r.last = s
			r.seen = append(r.seen, s)
			return nil
		})
}

func (r *reviewRecorder) get() string {
	r.mu.Lock()
	defer r.mu.Unlock()
	return r.last
}

func (r *reviewRecorder) waitFor(want string, d time.Duration) bool {
	deadline := time.Now().Add(d)
	for time.Now().Before(deadline) {
		if r.get() == want {
			return true
		}
		time.Sleep(20 * time.Millisecond)
	}
	return r.get() == want
}

func reviewReplaceByRename(t *testing.T, path, content string) {
	tmp := path + ".new"
	if err := os.WriteFile(tmp, []byte(content), 0644); err != nil {
		t.Fatal(err)
	}
	if err := os.Rename(tmp, path); err != nil {
		t.Fatal(err)
	}
}

// 1370ed8 promises that a rules file "replaced by a rename over it" is followed: "A removal event while a
// file exists under the watched name now makes sure that file is watched". The watch is moved only on the
// removal event of the replaced inode - and that event does not come while the replaced inode lives on:
// as a hard link that keeps the previous version (ln rules rules.prev; mv rules.new rules), or in a
// descriptor another process holds (the case 30b5ed5 cares about). The change of the link count is
// announced (IN_ATTRIB), the new file is read once - and is never watched: the datasource goes on
// watching the previous version, and what is written to the rules file from then on is not loaded.
func TestReviewFileReplacedByRenameWhileOldInodeLivesOn(t *testing.T) {
	t.Run("control: nothing keeps the replaced file (passes)", func(t *testing.T) {
		dir := t.TempDir()
		path := filepath.Join(dir, "rules.json")
		if err := os.WriteFile(path, []byte("v1"), 0644); err != nil {
			t.Fatal(err)
		}
		rec := &reviewRecorder{}
		ds := NewFileDataSource(path, rec.handler())
		if err := ds.Initialize(); err != nil {
			t.Fatal(err)
		}
		defer ds.Close()
		reviewReplaceByRename(t, path, "v2")
		if !rec.waitFor("v2", 3*time.Second) {
			t.Fatalf("control: replaced file not read, handler has %q", rec.get())
		}
		time.Sleep(200 * time.Millisecond)
		if err := os.WriteFile(path, []byte("v3"), 0644); err != nil {
			t.Fatal(err)
		}
		if !rec.waitFor("v3", 3*time.Second) {
			t.Fatalf("control: edit after a plain replace by rename not followed, handler has %q", rec.get())
		}
	})

	t.Run("previous version kept as hard link", func(t *testing.T) {
		dir := t.TempDir()
		path := filepath.Join(dir, "rules.json")
		if err := os.WriteFile(path, []byte("v1"), 0644); err != nil {
			t.Fatal(err)
		}
		rec := &reviewRecorder{}
		ds := NewFileDataSource(path, rec.handler())
		if err := ds.Initialize(); err != nil {
			t.Fatal(err)
		}
		defer ds.Close()
		if !rec.waitFor("v1", 2*time.Second) {
			t.Fatalf("precondition: first read not delivered, got %q", rec.get())
		}

		if err := os.Link(path, filepath.Join(dir, "rules.prev")); err != nil {
			t.Skipf("no hard links here: %v", err)
		}
		reviewReplaceByRename(t, path, "v2")
		if !rec.waitFor("v2", 3*time.Second) {
			t.Fatalf("the file that replaced the source by rename was not read: handler has %q, want \"v2\"", rec.get())
		}

		// an ordinary edit of the rules file that is there now
		if err := os.WriteFile(path, []byte("v3"), 0644); err != nil {
			t.Fatal(err)
		}
		if !rec.waitFor("v3", 3*time.Second) {
			t.Errorf("after the rules file was replaced by a rename over it (previous version kept as a hard link) "+
				"the datasource does not follow the file under the watched name: it was written \"v3\", the handler still has %q "+
				"3s later (handled so far: %q). The watch stayed on the replaced inode; it should be on the file that carries the name.",
				rec.get(), rec.seen)
		}
	})

	t.Run("replaced file held open by somebody", func(t *testing.T) {
		dir := t.TempDir()
		path := filepath.Join(dir, "rules.json")
		if err := os.WriteFile(path, []byte("v1"), 0644); err != nil {
			t.Fatal(err)
		}
		rec := &reviewRecorder{}
		ds := NewFileDataSource(path, rec.handler())
		if err := ds.Initialize(); err != nil {
			t.Fatal(err)
		}
		defer ds.Close()
		if !rec.waitFor("v1", 2*time.Second) {
			t.Fatalf("precondition: first read not delivered, got %q", rec.get())
		}

		holder, err := os.Open(path)
		if err != nil {
			t.Fatal(err)
		}
		defer holder.Close()
		reviewReplaceByRename(t, path, "v2")
		if !rec.waitFor("v2", 3*time.Second) {
			t.Fatalf("the file that replaced the source by rename was not read: handler has %q, want \"v2\"", rec.get())
		}
		if err := os.WriteFile(path, []byte("v3"), 0644); err != nil {
			t.Fatal(err)
		}
		if !rec.waitFor("v3", 3*time.Second) {
			t.Errorf("after the rules file was replaced by a rename over it while another process held the old file open "+
				"the datasource does not follow the file under the watched name: it was written \"v3\", the handler still has %q "+
				"3s later (handled so far: %q). The watch stays on the replaced inode until its last descriptor is closed.",
				rec.get(), rec.seen)
		}
	})
}
