package micro

import (
	"context"
	"sort"
	"strings"
	"sync/atomic"
	"testing"

	"github.com/micro/go-micro/v2/client"
	"github.com/micro/go-micro/v2/client/selector"
	microerrors "github.com/micro/go-micro/v2/errors"
	"github.com/micro/go-micro/v2/registry"
	"github.com/micro/go-micro/v2/registry/memory"
	"github.com/micro/go-micro/v2/server"

	sentinel "github.com/alibaba/sentinel-golang/api"
	"github.com/alibaba/sentinel-golang/core/base"
	"github.com/alibaba/sentinel-golang/core/circuitbreaker"
	"github.com/alibaba/sentinel-golang/core/outlier"
	"github.com/alibaba/sentinel-golang/core/stat"
	proto "github.com/alibaba/sentinel-golang/pkg/adapters/micro/test"
)

const auditService = "sentinel.audit.retry"

type auditNode struct {
	broken bool
	calls  int32
}

func (h *auditNode) Ping(ctx context.Context, req *proto.Request, rsp *proto.Response) error {
	atomic.AddInt32(&h.calls, 1)
	if h.broken {
		// a 500 of go-micro: what client.DefaultRetry (RetryOnError) retries on another node
		return microerrors.InternalServerError(auditService, "node A is broken")
	}
	rsp.Result = "Pong"
	return nil
}

func startAuditNode(t *testing.T, reg registry.Registry, id string, h *auditNode) server.Server {
	s := server.NewServer(
		server.Name(auditService),
		server.Id(id),
		server.Address("127.0.0.1:0"),
		server.Registry(reg),
	)
	if err := proto.RegisterTestHandler(s, h); err != nil {
		t.Fatalf("register handler: %v", err)
	}
	if err := s.Start(); err != nil {
		t.Fatalf("start node %s: %v", id, err)
	}
	return s
}

// The client wrapper in outlier mode, go-micro's DEFAULT retry policy (Retries = 1, RetryOnError), a service
// with a broken node A and a healthy node B. One Call: attempt 1 goes to A and fails with a 500, go-micro
// retries on B, B answers, Call returns nil.
//
// The property: an admitted request's entry is exited once, and it is the handler's ERROR that is traced.
// The wrapped call succeeded, so the entry must complete without error - and whatever is recorded about
// node A's failed attempt must not be booked on node B.
func TestAuditMicroOutlierRetryTracesFirstAttemptErrorOnTheNodeThatAnswered(t *testing.T) {
	if err := sentinel.InitDefault(); err != nil {
		t.Fatal(err)
	}
	reg := memory.NewRegistry()
	nodeA, nodeB := &auditNode{broken: true}, &auditNode{}
	sA := startAuditNode(t, reg, "a-broken", nodeA)
	defer sA.Stop()
	sB := startAuditNode(t, reg, "b-healthy", nodeB)
	defer sB.Stop()

	svcs, err := reg.GetService(auditService)
	if err != nil {
		t.Fatal(err)
	}
	addrOf := map[string]string{}
	for _, s := range svcs {
		for _, n := range s.Nodes {
			addrOf[n.Id] = n.Address
		}
	}
	addrA, addrB := addrOf[auditService+"-a-broken"], addrOf[auditService+"-b-healthy"]
	if addrA == "" || addrB == "" {
		t.Fatalf("nodes not registered: %v", addrOf)
	}

	// deterministic node order for every call: the broken node first, then the healthy one
	// (selector.RoundRobin, which example/outlier/hello_micro uses, starts every call at a random node:
	// with two nodes every second call looks like this; with the default random strategy every fourth)
	brokenFirst := func(services []*registry.Service) selector.Next {
		var nodes []*registry.Node
		for _, s := range services {
			nodes = append(nodes, s.Nodes...)
		}
		sort.Slice(nodes, func(i, j int) bool { return nodes[i].Id < nodes[j].Id })
		i := 0
		return func() (*registry.Node, error) {
			if len(nodes) == 0 {
				return nil, selector.ErrNoneAvailable
			}
			n := nodes[i%len(nodes)]
			i++
			return n, nil
		}
	}
	c := client.NewClient(
		client.Registry(reg),
		client.Selector(selector.NewSelector(selector.Registry(reg), selector.SetStrategy(brokenFirst))),
		client.Wrap(NewClientWrapper(WithEnableOutlier(func(context.Context) bool { return true }))),
	)

	if _, err := outlier.LoadRules([]*outlier.Rule{{
		Rule: &circuitbreaker.Rule{
			Resource:         auditService,
			Strategy:         circuitbreaker.ErrorCount,
			RetryTimeoutMs:   60000,
			MinRequestAmount: 1,
			StatIntervalMs:   60000,
			Threshold:        1.0,
		},
		EnableActiveRecovery: false,
		MaxEjectionPercent:   1.0,
		RecoveryIntervalMs:   60000,
		MaxRecoveryAttempts:  5,
	}}); err != nil {
		t.Fatal(err)
	}
	defer outlier.LoadRules(nil)

	errsBefore := int64(0)
	if n := stat.GetResourceNode(auditService); n != nil {
		errsBefore = n.GetSum(base.MetricEventError)
	}

	// (JSON as in example/outlier/hello_micro; with the protobuf codec of this go-micro version an error response is not delivered)
	req := c.NewRequest(auditService, "Test.Ping", &proto.Request{}, client.WithContentType("application/json"))
	rsp := &proto.Response{}
	if err := c.Call(context.Background(), req, rsp); err != nil {
		t.Fatalf("setup: the call was expected to succeed on the retry, got %v", err)
	}
	if rsp.Result != "Pong" || atomic.LoadInt32(&nodeA.calls) != 1 || atomic.LoadInt32(&nodeB.calls) != 1 {
		t.Fatalf("setup: expected one failed attempt on A and one successful on B, got A=%d B=%d result=%q",
			nodeA.calls, nodeB.calls, rsp.Result)
	}

	// what the entry of this ONE admitted, successful request left behind
	tracedErrors := stat.GetResourceNode(auditService).GetSum(base.MetricEventError) - errsBefore

	probeChain := base.NewSlotChain()
	probeChain.AddRuleCheckSlot(outlier.DefaultSlot)
	probe, blockErr := sentinel.Entry(auditService, sentinel.WithSlotChain(probeChain))
	if blockErr != nil {
		t.Fatalf("probe entry blocked: %v", blockErr)
	}
	ejected := append([]string(nil), probe.Context().FilterNodes()...)
	probe.Exit()

	ejectedB, ejectedA := false, false
	for _, a := range ejected {
		ejectedA = ejectedA || a == addrA
		ejectedB = ejectedB || a == addrB
	}
	if tracedErrors != 0 || ejectedB {
		t.Fatalf("client wrapper (outlier mode), one Call that go-micro's default retry completed successfully "+
			"(attempt 1 on broken node A=%s failed with a 500, attempt 2 on healthy node B=%s answered, Call returned nil): "+
			"the entry of this successful request completed with %d traced error(s), and the error of the attempt on A "+
			"was booked on B, the node that answered: ejected nodes now = [%s] (B ejected=%v, A ejected=%v). "+
			"The property demands that it is the handler's error that is traced: a request whose wrapped call succeeded "+
			"completes without error, and A's failure must not count against B",
			addrA, addrB, tracedErrors, strings.Join(ejected, ","), ejectedB, ejectedA)
	}
}
