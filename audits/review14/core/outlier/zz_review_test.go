package outlier

import (
	"sync/atomic"
	"testing"
	"time"

	"github.com/alibaba/sentinel-golang/core/base"
	"github.com/alibaba/sentinel-golang/core/circuitbreaker"
)

// reviewOpenBreaker is a node breaker that is open (TryPass == false). Its TryPass can be held up, which
// stands for a request whose check of the nodes is still under way while a load comes in.
type reviewOpenBreaker struct {
	rule    *circuitbreaker.Rule
	entered chan struct{}
	release chan struct{}
	closed  int32
}

func (b *reviewOpenBreaker) BoundRule() *circuitbreaker.Rule { return b.rule }
func (b *reviewOpenBreaker) BoundStat() interface{}          { return nil }
func (b *reviewOpenBreaker) TryPass(_ *base.EntryContext) bool {
	select {
	case b.entered <- struct{}{}:
		<-b.release
	default:
	}
	return false
}
func (b *reviewOpenBreaker) CurrentState() circuitbreaker.State { return circuitbreaker.Open }
func (b *reviewOpenBreaker) OnRequestComplete(_ uint64, _ error) {
	atomic.AddInt32(&b.closed, 1)
}

// Finding 2 (48ccf8d).
//
// 48ccf8d: "reconnection attempts of a replaced or removed outlier rule are void ... after the rule had been
// replaced by one with passive recovery ... the check function ... went on being called for ever". The
// schedule that exists at the time of the load is voided - but the attempts are started from a queue
// (retryerCh), by a goroutine that only looks whether the resource has SOME rule. A request that found its
// outlier nodes under the rule with active recovery and hands them to the queue after the load (its check of
// the nodes was under way while the load came in) starts the active-recovery loop under the rule with passive
// recovery: that rule's check function (or, if it has none, a TCP dial to the node) is called again and again,
// and a node it finds healthy has its breaker closed without any request.
func TestReviewRetryTaskOfReplacedRuleStartsActiveRecoveryUnderPassiveRule(t *testing.T) {
	const res = "review-retry-task-of-replaced-rule"
	const node = "10.9.8.7:80"
	defer func() { _ = ClearRules() }()

	var activeCalls, passiveCalls int32
	cbRule := func() *circuitbreaker.Rule {
		return &circuitbreaker.Rule{
			Resource: res, Strategy: circuitbreaker.ErrorCount, RetryTimeoutMs: 60000,
			MinRequestAmount: 1, StatIntervalMs: 1000, Threshold: 1,
		}
	}
	active := &Rule{
		Rule: cbRule(), EnableActiveRecovery: true, MaxEjectionPercent: 1, RecoveryIntervalMs: 10, MaxRecoveryAttempts: 2,
		RecoveryCheckFunc: func(string) bool { atomic.AddInt32(&activeCalls, 1); return false },
	}
	passive := &Rule{
		Rule: cbRule(), EnableActiveRecovery: false, MaxEjectionPercent: 1, RecoveryIntervalMs: 10, MaxRecoveryAttempts: 2,
		RecoveryCheckFunc: func(string) bool { atomic.AddInt32(&passiveCalls, 1); return false },
	}

	if _, err := LoadRules([]*Rule{active}); err != nil {
		t.Fatal(err)
	}
	breaker := &reviewOpenBreaker{rule: active.Rule, entered: make(chan struct{}), release: make(chan struct{})}
	updateMux.Lock()
	nodeBreakers[res] = map[string]circuitbreaker.CircuitBreaker{node: breaker}
	updateMux.Unlock()

	// a request under the rule with active recovery; its check of the nodes is held up ...
	ctx := base.NewEmptyEntryContext()
	ctx.Resource = base.NewResourceWrapper(res, base.ResTypeCommon, base.Outbound)
	ctx.RuleCheckResult = base.NewTokenResultPass()
	checked := make(chan struct{})
	go func() {
		DefaultSlot.Check(ctx)
		close(checked)
	}()
	select {
	case <-breaker.entered:
	case <-time.After(5 * time.Second):
		t.Fatal("test is wrong: the request never asked the node breaker")
	}
	// ... while the rule is replaced by one with passive recovery ...
	if _, err := LoadRules([]*Rule{passive}); err != nil {
		t.Fatal(err)
	}
	// ... and goes on.
	close(breaker.release)
	<-checked

	time.Sleep(300 * time.Millisecond)
	a, p := atomic.LoadInt32(&activeCalls), atomic.LoadInt32(&passiveCalls)
	retryerMutex.Lock()
	retryer := retryers[res]
	retryerMutex.Unlock()
	pending := 0
	if retryer != nil {
		pending = retryer.length()
	}
	if a != 0 || p != 0 || pending != 0 {
		t.Errorf("the rule in force has passive recovery (EnableActiveRecovery == false), and the rule with active "+
			"recovery was replaced before any attempt was scheduled: no check function may be called and no "+
			"reconnection may be pending; but within 300ms the check function of the replaced rule was called %d "+
			"times, that of the rule in force %d times, and %d node(s) are in the reconnection schedule", a, p, pending)
	}
}
