package goframe

import (
	"net/http"
	"net/http/httptest"
	"strings"
	"testing"

	sentinel "github.com/alibaba/sentinel-golang/api"
	"github.com/gogf/gf/v2/errors/gcode"
	"github.com/gogf/gf/v2/errors/gerror"
	"github.com/gogf/gf/v2/frame/g"
	"github.com/gogf/gf/v2/net/ghttp"
)

// Finding 1 (13bddf2, kept by a0f8ed2).
//
// The promise of 13bddf2: with the stand-in in the error slot "the same chain" no longer answers "differently
// with and without the adapter". The stand-in only has Error() and Unwrap(). goframe's own error helpers do
// not go through Unwrap: gerror.Is / gerror.HasError ask the error for an Is method, gerror.HasStack /
// gerror.Stack for a Stack method, gerror.Equal for Equal, gerror.Current for Current. Behind the adapter all
// of them answer for the stand-in, not for the error an earlier middleware noted.
func TestReviewGoframeStandInHidesErrorFromGerrorHelpers(t *testing.T) {
	if err := sentinel.InitDefault(); err != nil {
		t.Fatalf("Unexpected error: %+v", err)
	}

	errQuota := gerror.NewCode(gcode.CodeNotAuthorized, "quota used up")

	// an earlier middleware notes an error on the request and lets the request go on
	earlier := func(r *ghttp.Request) {
		r.SetError(gerror.Wrap(errQuota, "account check"))
		r.Middleware.Next()
	}
	// a middleware behind the adapter answers by the error on the request, the goframe way
	reporter := func(r *ghttp.Request) {
		r.Middleware.Next()
		err := r.GetError()
		r.Response.ClearBuffer()
		r.Response.Writef("is=%v hasStack=%v stackLines=%v",
			gerror.Is(err, errQuota), gerror.HasStack(err), strings.Count(gerror.Stack(err), "\n") > 0)
	}
	handler := func(r *ghttp.Request) {}

	serve := func(name string, mws ...ghttp.HandlerFunc) string {
		s := g.Server(name)
		s.SetAddr("127.0.0.1:0")
		s.SetRouteOverWrite(true)
		s.Group("/", func(group *ghttp.RouterGroup) {
			group.Middleware(mws...)
			group.ALL("/review", handler)
		})
		s.Start()
		defer s.Shutdown()
		w := httptest.NewRecorder()
		s.ServeHTTP(w, httptest.NewRequest(http.MethodGet, "/review", nil))
		return w.Body.String()
	}

	without := serve("review-without-adapter", earlier, reporter)
	with := serve("review-with-adapter", earlier, SentinelMiddleware(), reporter)

	if without != "is=true hasStack=true stackLines=true" {
		t.Fatalf("test is wrong: the chain without the adapter answered %q", without)
	}
	if with != without {
		t.Errorf("the same chain answers differently with and without the adapter:\n  without: %s\n  with:    %s\n"+
			"the middleware behind the adapter must find the earlier error as it is (gerror.Is / HasStack / Stack), "+
			"but finds a stand-in that implements none of the gerror interfaces", without, with)
	}
}
