package file

import (
	"io"
	"os"
	"os/exec"
	"path/filepath"
	"strings"
	"sync"
	"syscall"
	"testing"
	"time"

	"github.com/alibaba/sentinel-golang/ext/datasource"
)

type reviewRecorder struct {
	mu  sync.Mutex
	cur string
}

func (r *reviewRecorder) handler() datasource.PropertyHandler {
	return datasource.NewDefaultPropertyHandler(
		func(src []byte) (interface{}, error) { return string(src), nil },
		func(data interface{}) error {
			r.mu.Lock()
			defer r.mu.Unlock()
			if data == nil {
				r.cur = "<cleared>"
			} else {
				r.cur = data.(string)
			}
			return nil
		})
}

func (r *reviewRecorder) waitFor(want string) (string, bool) {
	deadline := time.Now().Add(3 * time.Second)
	for {
		r.mu.Lock()
		cur := r.cur
		r.mu.Unlock()
		if cur == want {
			return cur, true
		}
		if time.Now().After(deadline) {
			return cur, false
		}
		time.Sleep(10 * time.Millisecond)
	}
}

const reviewChildDirEnv = "SENTINEL_REVIEW_UNPRIVILEGED_DIR"

// Finding 3 (aedc7ae, 969d6b2).
//
// aedc7ae: "A file that was unreadable for a moment (chmod 000, then 644) lost its watch for good: it was
// dropped, could not be set while the file was unreadable, and nothing ever set it again." That is repaired for
// the file that stays; it is still so for the file that comes: when the file under the watched name is replaced
// (rename over it - what every tool does that writes a file atomically) by one that is unreadable for a moment
// (a temp file of mode 0600 of another user, made readable right after the rename, as ansible/atomic_move,
// install(1) and mktemp-based scripts do), the watch is taken off the old file, cannot be set on the new one,
// and nothing ever sets it: the content of the new file is never loaded, and no later write is ever seen.
//
// Reading a file of mode 000 and watching it are refused to an unprivileged process only, so the test runs its
// scenario under uid 65534 when it is started as root.
func TestReviewWatchLostForGoodWhenReplacementIsUnreadableForAMoment(t *testing.T) {
	if dir := os.Getenv(reviewChildDirEnv); dir != "" {
		reviewUnreadableReplacementScenario(t, dir)
		return
	}
	if os.Getuid() != 0 {
		reviewUnreadableReplacementScenario(t, t.TempDir())
		return
	}
	// root reads and watches everything: run the scenario in a copy of this test binary under an unprivileged uid
	dir, err := os.MkdirTemp("", "sentinel-review")
	if err != nil {
		t.Fatal(err)
	}
	defer os.RemoveAll(dir)
	if err := os.Chmod(dir, 0777); err != nil {
		t.Fatal(err)
	}
	self, err := os.Executable()
	if err != nil {
		t.Skip("cannot find the test binary:", err)
	}
	bin := filepath.Join(dir, "file.test")
	in, err := os.Open(self)
	if err != nil {
		t.Skip(err)
	}
	out, err := os.OpenFile(bin, os.O_CREATE|os.O_WRONLY, 0755)
	if err != nil {
		t.Skip(err)
	}
	_, err = io.Copy(out, in)
	in.Close()
	out.Close()
	if err != nil {
		t.Skip(err)
	}
	cmd := exec.Command(bin, "-test.run", "^"+t.Name()+"$", "-test.v")
	cmd.Dir = dir
	cmd.Env = append(os.Environ(), reviewChildDirEnv+"="+dir, "HOME="+dir)
	cmd.SysProcAttr = &syscall.SysProcAttr{Credential: &syscall.Credential{Uid: 65534, Gid: 65534}}
	output, err := cmd.CombinedOutput()
	if err != nil {
		// (of the child's output only what the test itself said: the rest is the log of the datasource)
		var said []string
		for _, line := range strings.Split(string(output), "\n") {
			if strings.Contains(line, "zz_review_test.go") {
				said = append(said, strings.TrimSpace(line))
			}
		}
		if len(said) == 0 {
			said = []string{string(output)}
		}
		t.Errorf("the scenario failed under uid 65534 (%v):\n%s", err, strings.Join(said, "\n"))
	}
}

func reviewUnreadableReplacementScenario(t *testing.T, dir string) {
	path := filepath.Join(dir, "rules.json")
	if err := os.WriteFile(path, []byte("v1"), 0644); err != nil {
		t.Fatal(err)
	}
	r := &reviewRecorder{}
	ds := NewFileDataSource(path, r.handler())
	if err := ds.Initialize(); err != nil {
		t.Fatal(err)
	}
	defer ds.Close()
	if cur, ok := r.waitFor("v1"); !ok {
		t.Fatalf("test is wrong: first read gave %q", cur)
	}

	// (control, the case aedc7ae repaired: the file itself is unreadable for a moment, and is followed afterwards)
	if err := os.Chmod(path, 0); err != nil {
		t.Fatal(err)
	}
	time.Sleep(100 * time.Millisecond)
	if err := os.Chmod(path, 0644); err != nil {
		t.Fatal(err)
	}
	if err := os.WriteFile(path, []byte("v1b"), 0644); err != nil {
		t.Fatal(err)
	}
	if cur, ok := r.waitFor("v1b"); !ok {
		t.Fatalf("test is wrong: a write after chmod 000 / chmod 644 of the file itself gave %q", cur)
	}

	// the file is replaced atomically by one that is made readable a moment after it was moved into place
	tmp := filepath.Join(dir, "rules.json.tmp")
	if err := os.WriteFile(tmp, []byte("v2"), 0600); err != nil {
		t.Fatal(err)
	}
	if err := os.Chmod(tmp, 0); err != nil {
		t.Fatal(err)
	}
	if _, err := os.ReadFile(tmp); err == nil {
		t.Skip("this process reads files of mode 000 (privileged): the scenario cannot be shown")
	}
	if err := os.Rename(tmp, path); err != nil {
		t.Fatal(err)
	}
	time.Sleep(300 * time.Millisecond)
	if err := os.Chmod(path, 0644); err != nil {
		t.Fatal(err)
	}

	if cur, ok := r.waitFor("v2"); !ok {
		t.Errorf("the file under the watched name was replaced by one that was unreadable for 300ms and is readable "+
			"now: its content \"v2\" should be loaded, but 3s later the property is still %q", cur)
	}
	if err := os.WriteFile(path, []byte("v3"), 0644); err != nil {
		t.Fatal(err)
	}
	if cur, ok := r.waitFor("v3"); !ok {
		t.Errorf("a later write (\"v3\") to the file under the watched name should be seen, but 3s later the "+
			"property is still %q: the watch was dropped from the replaced file, could not be set on the "+
			"unreadable one, and nothing sets it again", cur)
	}
}
