package file

import (
	"fmt"
	"io/ioutil"
	"os"
	"path/filepath"
	"sync"
	"testing"
	"time"

	"github.com/alibaba/sentinel-golang/core/isolation"
	"github.com/alibaba/sentinel-golang/ext/datasource"
)

func auditIsolationPayload(threshold int) []byte {
	return []byte(fmt.Sprintf(`[{"resource":"audit6-res","metricType":0,"threshold":%d}]`, threshold))
}

func auditIsolationInForce() string {
	return fmt.Sprintf("%v", isolation.GetRulesOfResource("audit6-res"))
}

func auditWaitFor(cond func() bool, d time.Duration) bool {
	deadline := time.Now().Add(d)
	for time.Now().Before(deadline) {
		if cond() {
			return true
		}
		time.Sleep(5 * time.Millisecond)
	}
	return cond()
}

// Finding 1: the rules file is removed and written again (rm rules.json; cp new.json rules.json - the
// replacement that is not atomic). The removal clears the rules, which is right, but it also ends the
// datasource for good: the file that is written under the watched name afterwards is never read.
func TestAuditFileDatasourceIgnoresTheFileThatIsWrittenAfterARemoval(t *testing.T) {
	dir := t.TempDir()
	path := filepath.Join(dir, "rules.json")
	if err := ioutil.WriteFile(path, auditIsolationPayload(1), 0644); err != nil {
		t.Fatal(err)
	}
	_ = isolation.ClearRules()
	defer func() { _ = isolation.ClearRules() }()

	ds := NewFileDataSource(path, datasource.NewIsolationRulesHandler(datasource.IsolationRuleJsonArrayParser))
	if err := ds.Initialize(); err != nil {
		t.Fatalf("Initialize: %+v", err)
	}
	want1 := "[{ audit6-res Concurrency 1}]"
	if got := auditIsolationInForce(); got != want1 {
		t.Fatalf("setup: after Initialize the rules in force are %s, want %s", got, want1)
	}

	// remove the file: the rules must be cleared (they are)
	if err := os.Remove(path); err != nil {
		t.Fatal(err)
	}
	if !auditWaitFor(func() bool { return auditIsolationInForce() == "[]" }, 3*time.Second) {
		t.Fatalf("setup: the file was removed, but the rules in force are still %s", auditIsolationInForce())
	}

	// write the file again, with other content
	if err := ioutil.WriteFile(path, auditIsolationPayload(2), 0644); err != nil {
		t.Fatal(err)
	}
	want2 := "[{ audit6-res Concurrency 2}]"
	// (a source that was renamed is waited for during 6 seconds; give this one more than that)
	converged := auditWaitFor(func() bool { return auditIsolationInForce() == want2 }, 8*time.Second)
	// touch it once more: not even a later write to the new file is seen
	_ = ioutil.WriteFile(path, auditIsolationPayload(2), 0644)
	if !converged {
		converged = auditWaitFor(func() bool { return auditIsolationInForce() == want2 }, 1*time.Second)
	}
	if !converged {
		content, _ := ioutil.ReadFile(path)
		t.Errorf("events: remove %s, then write it again. The file now holds %s, but the rules in force are %s (want %s), "+
			"8 seconds and one more write later; a second Initialize() returns %v and changes nothing. "+
			"The property demands that a file datasource converges to the file's current content after each write; "+
			"the removal has ended the datasource instead (a renamed source is waited for, a removed one is not)",
			path, content, auditIsolationInForce(), want2, ds.Initialize())
	}
}

type auditRecorder struct {
	mux  sync.Mutex
	seen []string
}

func (r *auditRecorder) add(s string) {
	r.mux.Lock()
	r.seen = append(r.seen, s)
	r.mux.Unlock()
}

func (r *auditRecorder) count(s string) int {
	r.mux.Lock()
	defer r.mux.Unlock()
	n := 0
	for _, v := range r.seen {
		if v == s {
			n++
		}
	}
	return n
}

func (r *auditRecorder) all() []string {
	r.mux.Lock()
	defer r.mux.Unlock()
	return append([]string(nil), r.seen...)
}

// Finding 2: RemovePropertyHandler on a live datasource, while the watcher goroutine delivers a payload to the
// handlers. Base.Handle ranges over the handler slice, RemovePropertyHandler shifts the elements of that very
// backing array to the left (no lock on either side): the handler behind the removed one is skipped, the last
// one gets the payload twice. The skipped handler never sees the content the file has been given.
func TestAuditRemovingAHandlerMakesTheDatasourceSkipAnotherHandler(t *testing.T) {
	dir := t.TempDir()
	path := filepath.Join(dir, "rules.json")
	if err := ioutil.WriteFile(path, []byte("1"), 0644); err != nil {
		t.Fatal(err)
	}

	converter := func(src []byte) (interface{}, error) {
		if len(src) == 0 {
			return nil, nil
		}
		return string(src), nil
	}
	rec1, rec2, rec3 := &auditRecorder{}, &auditRecorder{}, &auditRecorder{}
	entered := make(chan struct{}, 1)
	release := make(chan struct{})
	h1 := datasource.NewDefaultPropertyHandler(converter, func(data interface{}) error {
		s, _ := data.(string)
		rec1.add(s)
		if s == "2" {
			// a slow updater: loading a rule list takes its time
			entered <- struct{}{}
			<-release
		}
		return nil
	})
	h2 := datasource.NewDefaultPropertyHandler(converter, func(data interface{}) error {
		s, _ := data.(string)
		rec2.add(s)
		return nil
	})
	h3 := datasource.NewDefaultPropertyHandler(converter, func(data interface{}) error {
		s, _ := data.(string)
		rec3.add(s)
		return nil
	})

	ds := NewFileDataSource(path, h1, h2, h3)
	if err := ds.Initialize(); err != nil {
		t.Fatalf("Initialize: %+v", err)
	}
	defer ds.Close()
	if rec1.count("1") != 1 || rec2.count("1") != 1 || rec3.count("1") != 1 {
		t.Fatalf("setup: every handler must have got the first content once: %v %v %v", rec1.all(), rec2.all(), rec3.all())
	}

	// one write() of the same length and no truncation: one modification event, one delivery
	f, err := os.OpenFile(path, os.O_WRONLY, 0644)
	if err != nil {
		t.Fatal(err)
	}
	if _, err = f.WriteAt([]byte("2"), 0); err != nil {
		t.Fatal(err)
	}
	_ = f.Close()

	select {
	case <-entered:
	case <-time.After(5 * time.Second):
		close(release)
		t.Fatalf("setup: the write was not delivered to the first handler: %v", rec1.all())
	}
	// the watcher goroutine is in Base.Handle, inside the first handler; the application drops that handler
	ds.RemovePropertyHandler(h1)
	close(release)

	got := auditWaitFor(func() bool { return rec2.count("2") == 1 }, 3*time.Second)
	if !got {
		content, _ := ioutil.ReadFile(path)
		t.Errorf("the file was given the content %q while handler 1 of 3 was being removed from the datasource: "+
			"handler 2 (not removed) was handed %v and never the new content, handler 3 was handed %v. "+
			"The property demands that a payload is applied faithfully and that the file datasource converges to the "+
			"file's current content after each write; RemovePropertyHandler shifted the handler list under the running "+
			"Base.Handle, which skipped handler 2 and visited handler 3 twice (its second visit is dropped as a repetition)",
			content, rec2.all(), rec3.all())
	}
}
