package metric

import (
	"fmt"
	"strings"
	"testing"
	"time"

	"github.com/alibaba/sentinel-golang/core/base"
	"github.com/alibaba/sentinel-golang/core/config"
	"github.com/alibaba/sentinel-golang/util"
)

type auditClock struct{ ms uint64 }

func (c *auditClock) Now() time.Time            { return time.Unix(0, int64(c.ms)*int64(time.Millisecond)) }
func (c *auditClock) Sleep(d time.Duration)     {}
func (c *auditClock) CurrentTimeMillis() uint64 { return c.ms }
func (c *auditClock) CurrentTimeNano() uint64   { return c.ms * 1000000 }

func auditItems(items []*base.MetricItem) string {
	sb := strings.Builder{}
	for _, it := range items {
		fmt.Fprintf(&sb, "%s@%d ", it.Resource, it.Timestamp)
	}
	return strings.TrimSpace(sb.String())
}

// Two batches of ONE second whose millisecond parts go backwards (T+900ms, then T+100ms) are both
// accepted by the writer - its only order check is "second < latest second => ignore" - and are
// handed back by the searcher in write order, i.e. NOT in timestamp order.
func TestAuditSubSecondRegressionIsAcceptedButReadBackOutOfTimestampOrder(t *testing.T) {
	dir := t.TempDir()
	cfg := config.NewDefaultConfig()
	cfg.Sentinel.Log.Dir = dir
	cfg.Sentinel.Log.UsePid = false
	config.ResetGlobalConfig(cfg)
	defer config.ResetGlobalConfig(config.NewDefaultConfig())

	const t0 = uint64(1603400000000) // a whole second
	util.SetClock(&auditClock{ms: t0})
	defer util.SetClock(util.NewRealClock())

	wi, err := NewDefaultMetricLogWriterOfApp(1<<20, 3, "auditapp")
	if err != nil {
		t.Fatal(err)
	}
	w := wi.(*DefaultMetricLogWriter)
	defer w.Close()

	// second T+1: first batch stamped T+1.900, second batch stamped T+1.100 (same second => the
	// sequence of seconds is non-decreasing and not before the creation of the writer)
	if err := w.Write(t0+1900, []*base.MetricItem{{Resource: "late", PassQps: 1}}); err != nil {
		t.Fatal(err)
	}
	if err := w.Write(t0+1100, []*base.MetricItem{{Resource: "early", PassQps: 2}}); err != nil {
		t.Fatal(err)
	}

	s, err := NewDefaultMetricSearcher(dir, FormMetricFileName("auditapp", false))
	if err != nil {
		t.Fatal(err)
	}
	byRange, err := s.FindByTimeAndResource(t0+1000, t0+1999, "")
	if err != nil {
		t.Fatal(err)
	}
	byLines, err := s.FindFromTimeWithMaxLines(t0+1000, 100)
	if err != nil {
		t.Fatal(err)
	}
	if len(byRange) != 2 || len(byLines) != 2 {
		t.Fatalf("expected both batches to be accepted and returned, got by range [%s], by lines [%s]",
			auditItems(byRange), auditItems(byLines))
	}
	for name, got := range map[string][]*base.MetricItem{"FindByTimeAndResource": byRange, "FindFromTimeWithMaxLines": byLines} {
		for i := 1; i < len(got); i++ {
			if got[i].Timestamp < got[i-1].Timestamp {
				t.Errorf("%s returned [%s]: the writer accepted both batches (their seconds are non-decreasing), "+
					"but the searcher hands them back with the timestamp going backwards (%d after %d); "+
					"the property demands that accepted items are read back in timestamp order",
					name, auditItems(got), got[i].Timestamp, got[i-1].Timestamp)
			}
		}
	}
}
