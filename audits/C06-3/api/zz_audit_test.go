package api

import (
	"testing"

	"github.com/alibaba/sentinel-golang/core/base"
	"github.com/alibaba/sentinel-golang/core/hotspot"
)

// auditInFlight opens n entries for one argument value without exiting them and reports how many
// of them were admitted; the admitted ones are handed back so that the caller can exit them.
func auditInFlight(res string, arg interface{}, n int) (admitted []*base.SentinelEntry) {
	for i := 0; i < n; i++ {
		e, b := Entry(res, WithTrafficType(base.Inbound), WithArgs(arg))
		if b == nil {
			admitted = append(admitted, e)
		}
	}
	return admitted
}

// Finding 1: the "copy" GetRules / GetRulesOfResource hands out shares the specific-item table
// with the running controller. Writing into the copy - which the documentation of both functions
// says has no effect on the module - changes the threshold the controller applies to that value.
func TestAuditGetRulesCopySharesSpecificItemTable(t *testing.T) {
	const res = "audit-c06-getrules-copy"
	defer func() { _ = hotspot.ClearRulesOfResource(res) }()

	rule := &hotspot.Rule{
		Resource:      res,
		MetricType:    hotspot.Concurrency,
		ParamIndex:    0,
		Threshold:     10,
		SpecificItems: map[interface{}]int64{"vip": 1},
	}
	if _, err := hotspot.LoadRulesOfResource(res, []*hotspot.Rule{rule}); err != nil {
		t.Fatalf("load: %v", err)
	}

	// sanity: the configured specific threshold 1 is enforced
	es := auditInFlight(res, "vip", 2)
	if len(es) != 1 {
		t.Fatalf("precondition: want exactly 1 of 2 overlapping entries for \"vip\" admitted, got %d", len(es))
	}
	for _, e := range es {
		e.Exit()
	}

	// "GetRulesOfResource returns ... rules based on copy. It doesn't take effect for hotspot
	// module if user changes the returned rules."  Nothing is loaded after this edit.
	copies := hotspot.GetRulesOfResource(res)
	if len(copies) != 1 {
		t.Fatalf("want 1 rule back, got %d", len(copies))
	}
	copies[0].SpecificItems["vip"] = 100

	es = auditInFlight(res, "vip", 5)
	defer func() {
		for _, e := range es {
			e.Exit()
		}
	}()
	if len(es) != 1 {
		t.Errorf("rule loaded for %q: specific threshold 1 for value \"vip\" (general 10); no rule was loaded since. "+
			"After writing into the COPY returned by GetRulesOfResource, %d of 5 overlapping entries for \"vip\" were admitted. "+
			"The property demands: admitted iff the entries in flight for v are fewer than the threshold CONFIGURED for v, i.e. exactly 1 admitted",
			res, len(es))
	}
}

// Finding 2: a concurrency rule is dropped without an error when its ControlBehavior field - which
// is documented to take effect for QPS rules only - holds a value other than Reject / Throttling.
func TestAuditConcurrencyRuleWithOtherControlBehaviorIsNotEnforced(t *testing.T) {
	const res = "audit-c06-control-behavior"
	defer func() { _ = hotspot.ClearRulesOfResource(res) }()

	rule := &hotspot.Rule{
		Resource:        res,
		MetricType:      hotspot.Concurrency,
		ControlBehavior: hotspot.ControlBehavior(2), // "only takes effect when MetricType is QPS"
		ParamIndex:      0,
		Threshold:       1,
	}
	if err := hotspot.IsValidRule(rule); err != nil {
		t.Skipf("the rule is rejected as invalid (%v): nothing to enforce", err)
	}
	changed, err := hotspot.LoadRulesOfResource(res, []*hotspot.Rule{rule})
	if err != nil || !changed {
		t.Skipf("the rule was not accepted (changed=%v err=%v): nothing to enforce", changed, err)
	}

	es := auditInFlight(res, "a", 3)
	defer func() {
		for _, e := range es {
			e.Exit()
		}
	}()
	if len(es) != 1 {
		t.Errorf("a valid (IsValidRule == nil) concurrency rule with threshold 1 was loaded without error for %q, "+
			"yet %d of 3 overlapping entries for value \"a\" were admitted (rules in force: %d). "+
			"The property demands that a request for v is admitted iff fewer than threshold (1) entries are in flight for v: exactly 1",
			res, len(es), len(hotspot.GetRulesOfResource(res)))
	}
}
