package api

import (
	"fmt"
	"math/rand"
	"sort"
	"strconv"
	"strings"
	"sync"
	"testing"

	"github.com/alibaba/sentinel-golang/core/base"
)

// Audit C16 (third pass): no violation of the property was found. This file is the differential
// harness the audit used; both tests PASS on the unmodified code. See AUDIT.md.

type auditRule struct{ id string }

func (r *auditRule) String() string       { return r.id }
func (r *auditRule) ResourceName() string { return r.id }

type auditLog struct {
	mu     sync.Mutex
	events map[string][]string // entry id -> events
}

func (l *auditLog) add(id, ev string) {
	l.mu.Lock()
	l.events[id] = append(l.events[id], ev)
	l.mu.Unlock()
}

func behaviours(id string, n int) []int {
	// deterministic per entry id
	h := int64(0)
	for _, c := range id {
		h = h*131 + int64(c)
	}
	r := rand.New(rand.NewSource(h))
	out := make([]int, n)
	for i := range out {
		out[i] = r.Intn(100)
	}
	return out
}

type auditPrep struct {
	name  string
	order uint32
	idx   int
	log   *auditLog
}

func (s *auditPrep) Order() uint32 { return s.order }
func (s *auditPrep) Prepare(ctx *base.EntryContext) {
	id := ctx.Resource.Name()
	s.log.add(id, "prep:"+s.name)
	b := behaviours(id+"/p", 64)[s.idx]
	if b < 3 {
		panic("prep panic " + s.name)
	}
}

type auditCheck struct {
	name       string
	order      uint32
	idx        int
	log        *auditLog
	persistent *base.TokenResult
	rearm      *base.TokenResult
	mu         sync.Mutex
	serial     bool
}

func (s *auditCheck) Order() uint32 { return s.order }

// expected behaviour classes
const (
	bNil = iota
	bCtxPass
	bFreshPass
	bFreshBlock
	bPersistentBlock
	bRearmBlock
	bRearmBlockShort
	bInPlaceBlock
	bPanic
	bArmPanic
	bPanicNil
	bWait
)

func classOf(v int, serial bool) int {
	switch {
	case v < 30:
		return bNil
	case v < 45:
		return bCtxPass
	case v < 55:
		return bFreshPass
	case v < 62:
		return bFreshBlock
	case v < 68:
		return bPersistentBlock
	case v < 74:
		if serial {
			return bRearmBlock
		}
		return bFreshBlock
	case v < 78:
		if serial {
			return bRearmBlockShort
		}
		return bFreshBlock
	case v < 86:
		return bInPlaceBlock
	case v < 89:
		return bPanic
	case v < 92:
		return bArmPanic
	case v < 94:
		return bPanicNil
	default:
		return bWait
	}
}

func (s *auditCheck) Check(ctx *base.EntryContext) *base.TokenResult {
	id := ctx.Resource.Name()
	s.log.add(id, "check:"+s.name)
	c := classOf(behaviours(id+"/c", 64)[s.idx], s.serial)
	msg := id + "@" + s.name
	rule := &auditRule{id: msg}
	switch c {
	case bNil:
		return nil
	case bCtxPass:
		return ctx.RuleCheckResult
	case bFreshPass:
		return base.NewTokenResultPass()
	case bFreshBlock:
		return base.NewTokenResultBlockedWithCause(base.BlockTypeFlow, msg, rule, msg)
	case bPersistentBlock:
		return s.persistent
	case bRearmBlock:
		s.rearm.ResetToBlockedWithCause(base.BlockTypeIsolation, msg, rule, msg)
		return s.rearm
	case bRearmBlockShort:
		s.rearm.ResetToBlockedWithMessage(base.BlockTypeIsolation, msg)
		return s.rearm
	case bInPlaceBlock:
		ctx.RuleCheckResult.ResetToBlockedWithCause(base.BlockTypeSystemFlow, msg, rule, msg)
		return ctx.RuleCheckResult
	case bPanic:
		panic("check panic " + msg)
	case bArmPanic:
		ctx.RuleCheckResult.ResetToBlockedWithCause(base.BlockTypeSystemFlow, msg, rule, msg)
		panic(fmt.Errorf("check panic after arming %s", msg))
	case bPanicNil:
		panic(nil)
	default:
		return base.NewTokenResultShouldWait(1)
	}
}

type auditStat struct {
	name  string
	order uint32
	log   *auditLog
}

func (s *auditStat) Order() uint32 { return s.order }
func (s *auditStat) OnEntryPassed(ctx *base.EntryContext) {
	s.log.add(ctx.Resource.Name(), "passed:"+s.name)
}
func (s *auditStat) OnEntryBlocked(ctx *base.EntryContext, be *base.BlockError) {
	s.log.add(ctx.Resource.Name(), "blocked:"+s.name+":"+descr(be))
}
func (s *auditStat) OnCompleted(ctx *base.EntryContext) {
	s.log.add(ctx.Resource.Name(), "completed:"+s.name)
}

func descr(be *base.BlockError) string {
	if be == nil {
		return "<nil>"
	}
	r := "<nil>"
	if be.TriggeredRule() != nil {
		r = be.TriggeredRule().String()
	}
	return fmt.Sprintf("%d|%s|%s|%v", be.BlockType(), be.BlockMsg(), r, be.TriggeredValue())
}

type auditChain struct {
	sc     *base.SlotChain
	preps  []*auditPrep
	checks []*auditCheck
	stats  []*auditStat
	log    *auditLog
}

func buildAuditChain(r *rand.Rand, serial bool) *auditChain {
	ac := &auditChain{sc: base.NewSlotChain(), log: &auditLog{events: map[string][]string{}}}
	np, nc, ns := r.Intn(4), r.Intn(12), r.Intn(5)
	ord := func() uint32 {
		switch r.Intn(6) {
		case 0:
			return 0
		case 1:
			return ^uint32(0)
		default:
			return uint32(r.Intn(4))
		}
	}
	for i := 0; i < np; i++ {
		s := &auditPrep{name: "P" + strconv.Itoa(i), order: ord(), idx: i, log: ac.log}
		ac.preps = append(ac.preps, s)
		ac.sc.AddStatPrepareSlot(s)
	}
	for i := 0; i < nc; i++ {
		s := &auditCheck{name: "C" + strconv.Itoa(i), order: ord(), idx: i, log: ac.log, serial: serial}
		s.persistent = base.NewTokenResultBlockedWithCause(base.BlockTypeCircuitBreaking, "persistent@"+s.name, &auditRule{id: "persistent@" + s.name}, "pv@"+s.name)
		s.rearm = base.NewTokenResultPass()
		ac.checks = append(ac.checks, s)
		ac.sc.AddRuleCheckSlot(s)
	}
	for i := 0; i < ns; i++ {
		s := &auditStat{name: "S" + strconv.Itoa(i), order: ord(), log: ac.log}
		ac.stats = append(ac.stats, s)
		ac.sc.AddStatSlot(s)
	}
	return ac
}

// expected events and outcome of one entry
func (ac *auditChain) expect(id string, serial bool) (events []string, blocked bool, want string, completes bool) {
	preps := append([]*auditPrep(nil), ac.preps...)
	sort.SliceStable(preps, func(i, j int) bool { return preps[i].order < preps[j].order })
	checks := append([]*auditCheck(nil), ac.checks...)
	sort.SliceStable(checks, func(i, j int) bool { return checks[i].order < checks[j].order })
	stats := append([]*auditStat(nil), ac.stats...)
	sort.SliceStable(stats, func(i, j int) bool { return stats[i].order < stats[j].order })

	pb := behaviours(id+"/p", 64)
	for _, p := range preps {
		events = append(events, "prep:"+p.name)
		if pb[p.idx] < 3 {
			return events, false, "", false
		}
	}
	cb := behaviours(id+"/c", 64)
	for _, c := range checks {
		events = append(events, "check:"+c.name)
		msg := id + "@" + c.name
		switch classOf(cb[c.idx], serial) {
		case bFreshBlock:
			blocked, want = true, fmt.Sprintf("%d|%s|%s|%s", base.BlockTypeFlow, msg, msg, msg)
		case bPersistentBlock:
			blocked, want = true, fmt.Sprintf("%d|%s|%s|%s", base.BlockTypeCircuitBreaking, "persistent@"+c.name, "persistent@"+c.name, "pv@"+c.name)
		case bRearmBlock:
			blocked, want = true, fmt.Sprintf("%d|%s|%s|%s", base.BlockTypeIsolation, msg, msg, msg)
		case bRearmBlockShort:
			blocked, want = true, fmt.Sprintf("%d|%s|<nil>|<nil>", base.BlockTypeIsolation, msg)
		case bInPlaceBlock:
			blocked, want = true, fmt.Sprintf("%d|%s|%s|%s", base.BlockTypeSystemFlow, msg, msg, msg)
		case bPanic, bArmPanic, bPanicNil:
			return events, false, "", false
		}
		if blocked {
			break
		}
	}
	for _, s := range stats {
		if blocked {
			events = append(events, "blocked:"+s.name+":"+want)
		} else {
			events = append(events, "passed:"+s.name)
		}
	}
	if !blocked {
		for _, s := range stats {
			events = append(events, "completed:"+s.name)
		}
	}
	return events, blocked, want, !blocked
}

type heldBlock struct {
	id   string
	be   *base.BlockError
	want string
}

func runOne(t *testing.T, ac *auditChain, id string, serial bool, held *[]heldBlock, hmu *sync.Mutex) {
	var e *base.SentinelEntry
	var be *base.BlockError
	func() {
		defer func() {
			if p := recover(); p != nil {
				t.Errorf("entry %s: panic reached the caller of Entry: %v", id, p)
			}
		}()
		e, be = Entry(id, WithSlotChain(ac.sc), WithArgs(id), WithAttachment("k", id))
	}()
	wantEv, blocked, want, _ := ac.expect(id, serial)
	if blocked {
		if be == nil {
			t.Errorf("entry %s: expected block %s, was admitted", id, want)
		} else {
			if d := descr(be); d != want {
				t.Errorf("entry %s: block error %s, want %s", id, d, want)
			}
			hmu.Lock()
			*held = append(*held, heldBlock{id, be, want})
			hmu.Unlock()
		}
		if e != nil {
			t.Errorf("entry %s: blocked but entry returned", id)
		}
	} else {
		if be != nil {
			t.Errorf("entry %s: expected admission, got block %s", id, descr(be))
		}
		if e == nil {
			t.Errorf("entry %s: admitted without entry", id)
		}
	}
	if e != nil {
		func() {
			defer func() {
				if p := recover(); p != nil {
					t.Errorf("entry %s: panic reached the caller of Exit: %v", id, p)
				}
			}()
			e.Exit()
			e.Exit()
		}()
	}
	ac.log.mu.Lock()
	got := append([]string(nil), ac.log.events[id]...)
	ac.log.mu.Unlock()
	if strings.Join(got, ",") != strings.Join(wantEv, ",") {
		t.Errorf("entry %s:\n got  %v\n want %v", id, got, wantEv)
	}
}

func TestAuditExploreSequential(t *testing.T) {
	for seed := int64(0); seed < 300; seed++ {
		r := rand.New(rand.NewSource(seed))
		ac := buildAuditChain(r, true)
		var held []heldBlock
		var hmu sync.Mutex
		for i := 0; i < 60; i++ {
			runOne(t, ac, fmt.Sprintf("s%d-e%d", seed, i), true, &held, &hmu)
			if t.Failed() {
				t.Fatalf("seed %d", seed)
			}
		}
		for _, h := range held {
			if d := descr(h.be); d != h.want {
				t.Fatalf("seed %d entry %s: block error changed afterwards to %s, was %s", seed, h.id, d, h.want)
			}
		}
	}
}

func TestAuditExploreConcurrent(t *testing.T) {
	for seed := int64(0); seed < 60; seed++ {
		r := rand.New(rand.NewSource(seed))
		ac := buildAuditChain(r, false)
		var held []heldBlock
		var hmu sync.Mutex
		var wg sync.WaitGroup
		for g := 0; g < 8; g++ {
			wg.Add(1)
			go func(g int) {
				defer wg.Done()
				for i := 0; i < 40; i++ {
					runOne(t, ac, fmt.Sprintf("c%d-g%d-e%d", seed, g, i), false, &held, &hmu)
				}
			}(g)
		}
		wg.Wait()
		if t.Failed() {
			t.Fatalf("seed %d", seed)
		}
		for _, h := range held {
			if d := descr(h.be); d != h.want {
				t.Fatalf("seed %d entry %s: block error changed afterwards to %s, was %s", seed, h.id, d, h.want)
			}
		}
	}
}
