package circuitbreaker

import (
	"errors"
	"fmt"
	"runtime"
	"strings"
	"sync"
	"sync/atomic"
	"testing"
	"time"

	"github.com/alibaba/sentinel-golang/core/base"
	"github.com/alibaba/sentinel-golang/util"
)

// ---------------------------------------------------------------------------------------------
// helpers
// ---------------------------------------------------------------------------------------------

// auditClock is a util.Clock whose time is set by the test. It can also hold ONE goroutine at the
// k-th reading of the time that updateNextRetryTimestamp makes (the reading returns, with the time
// of that later moment, when the test lets it go): that is how a goroutine that is descheduled at
// that point (GC pause, preemption, a loaded machine) is reproduced deterministically.
type auditClock struct {
	ms int64

	armed   int32
	hits    int32
	pauseAt int32
	parked  chan struct{}
	release chan struct{}
}

func newAuditClock(ms uint64) *auditClock {
	return &auditClock{ms: int64(ms), parked: make(chan struct{}, 1), release: make(chan struct{})}
}

func (c *auditClock) set(ms uint64) { atomic.StoreInt64(&c.ms, int64(ms)) }
func (c *auditClock) Now() time.Time {
	return time.Unix(0, atomic.LoadInt64(&c.ms)*int64(time.Millisecond))
}
func (c *auditClock) Sleep(time.Duration) {}
func (c *auditClock) CurrentTimeNano() uint64 {
	return uint64(atomic.LoadInt64(&c.ms)) * uint64(time.Millisecond)
}

// holdAtRetryTimestampUpdate arms the clock: the k-th time (counted from now) that
// circuitBreakerBase.updateNextRetryTimestamp asks for the time, the asking goroutine is held.
func (c *auditClock) holdAtRetryTimestampUpdate(k int32) {
	atomic.StoreInt32(&c.hits, 0)
	atomic.StoreInt32(&c.pauseAt, k)
	atomic.StoreInt32(&c.armed, 1)
}

func (c *auditClock) CurrentTimeMillis() uint64 {
	if atomic.LoadInt32(&c.armed) == 1 && auditCalledFrom("updateNextRetryTimestamp") {
		if atomic.AddInt32(&c.hits, 1) == atomic.LoadInt32(&c.pauseAt) {
			atomic.StoreInt32(&c.armed, 0)
			c.parked <- struct{}{}
			<-c.release
		}
	}
	return uint64(atomic.LoadInt64(&c.ms))
}

func auditCalledFrom(fn string) bool {
	pcs := make([]uintptr, 16)
	n := runtime.Callers(2, pcs)
	frames := runtime.CallersFrames(pcs[:n])
	for {
		f, more := frames.Next()
		if strings.HasSuffix(f.Function, "."+fn) {
			return true
		}
		if !more {
			return false
		}
	}
}

type auditEvent struct {
	prev, to State
	atMs     uint64
}

func (e auditEvent) String() string {
	p, t := e.prev, e.to
	return fmt.Sprintf("%s->%s", p.String(), t.String())
}

type auditListener struct {
	mu     sync.Mutex
	events []auditEvent
}

func (l *auditListener) add(prev, to State) {
	l.mu.Lock()
	l.events = append(l.events, auditEvent{prev: prev, to: to, atMs: util.CurrentTimeMillis()})
	l.mu.Unlock()
}
func (l *auditListener) OnTransformToClosed(prev State, _ Rule)              { l.add(prev, Closed) }
func (l *auditListener) OnTransformToOpen(prev State, _ Rule, _ interface{}) { l.add(prev, Open) }
func (l *auditListener) OnTransformToHalfOpen(prev State, _ Rule)            { l.add(prev, HalfOpen) }
func (l *auditListener) snapshot() []auditEvent {
	l.mu.Lock()
	defer l.mu.Unlock()
	return append([]auditEvent(nil), l.events...)
}

func auditChain() *base.SlotChain {
	sc := base.NewSlotChain()
	sc.AddRuleCheckSlot(DefaultSlot)
	sc.AddStatSlot(DefaultMetricStatSlot)
	return sc
}

// auditEnter does what api.Entry does with the given chain.
func auditEnter(sc *base.SlotChain, res string) (*base.SentinelEntry, *base.BlockError) {
	rw := base.NewResourceWrapper(res, base.ResTypeCommon, base.Inbound)
	ctx := sc.GetPooledContext()
	ctx.Resource = rw
	e := base.NewSentinelEntry(ctx, rw, sc)
	ctx.SetEntry(e)
	r := sc.Entry(ctx)
	if r != nil && r.Status() == base.ResultStatusBlocked {
		be := base.NewBlockErrorFromDeepCopy(r.BlockError())
		e.Exit()
		return nil, be
	}
	return e, nil
}

func auditSetup(t *testing.T, clock *auditClock, rule *Rule) (*base.SlotChain, *auditListener, CircuitBreaker) {
	util.SetClock(clock)
	ClearStateChangeListeners()
	l := &auditListener{}
	RegisterStateChangeListeners(l)
	_ = ClearRules()
	if _, err := LoadRules([]*Rule{rule}); err != nil {
		t.Fatalf("LoadRules: %v", err)
	}
	cbs := getBreakersOfResource(rule.Resource)
	if len(cbs) != 1 {
		t.Fatalf("expected one breaker, got %d", len(cbs))
	}
	t.Cleanup(func() {
		_ = ClearRules()
		ClearStateChangeListeners()
		util.SetClock(util.NewRealClock())
	})
	return auditChain(), l, cbs[0]
}

const auditT0 = uint64(1700000000000) // a multiple of 1000

// ---------------------------------------------------------------------------------------------
// Finding 1
// ---------------------------------------------------------------------------------------------

// A completion that found the threshold reached while the breaker was closed, but is overtaken by
// another completion that opens the breaker first, still pushes the retry deadline of THAT open
// period to (its own clock reading + RetryTimeoutMs): fromClosedToOpen calls
// updateNextRetryTimestamp() before the CAS and does not take it back when the CAS fails.
// The breaker then stays open longer than the retry timeout.
func TestAudit_LateLoserOfOpeningRaceExtendsOpenPeriod(t *testing.T) {
	const res = "audit-c03-deadline"
	const retry = 1000
	clock := newAuditClock(auditT0)
	sc, l, cb := auditSetup(t, clock, &Rule{
		Resource: res, Strategy: ErrorCount, Threshold: 1, MinRequestAmount: 1,
		StatIntervalMs: 10000, StatSlidingWindowBucketCount: 1, RetryTimeoutMs: retry,
	})

	e1, b1 := auditEnter(sc, res)
	e2, b2 := auditEnter(sc, res)
	if b1 != nil || b2 != nil {
		t.Fatalf("closed breaker must admit")
	}

	openAt := auditT0 + 10
	clock.set(openAt)

	// request 2 fails: its completion counts the error, sees Closed and the threshold reached, and is
	// descheduled just as it enters fromClosedToOpen (at the clock reading before the CAS).
	clock.holdAtRetryTimestampUpdate(1)
	done := make(chan struct{})
	go func() {
		e2.Exit(base.WithError(errors.New("boom-2")))
		close(done)
	}()
	<-clock.parked

	// request 1 fails at the same instant and opens the breaker, listeners are told so.
	e1.Exit(base.WithError(errors.New("boom-1")))
	if cb.CurrentState() != Open {
		t.Fatalf("setup: breaker should be open, is %v", cb.CurrentState())
	}
	if ev := l.snapshot(); len(ev) != 1 || ev[0].to != Open || ev[0].atMs != openAt {
		t.Fatalf("setup: expected exactly one Closed->Open notification at %d, got %v", openAt, ev)
	}

	// 600 ms later the other completion gets the CPU back. It changes no state (its CAS fails) ...
	clock.set(openAt + 600)
	clock.release <- struct{}{}
	<-done
	if ev := l.snapshot(); len(ev) != 1 {
		t.Fatalf("setup: the late completion must not cause a transition, got %v", ev)
	}

	// ... but the breaker, open since openAt with a retry timeout of 1000 ms, must admit a probe at openAt+1000.
	clock.set(openAt + retry)
	e, blk := auditEnter(sc, res)
	if blk == nil {
		e.Exit()
		return // property holds
	}
	admittedAt := uint64(0)
	for d := uint64(retry) + 50; d <= 3*retry; d += 50 {
		clock.set(openAt + d)
		if e, blk := auditEnter(sc, res); blk == nil {
			admittedAt = d
			e.Exit()
			break
		}
	}
	t.Fatalf("breaker opened at t=%d ms (listeners notified then), RetryTimeoutMs=%d: the request at t+%d ms was rejected (%v) "+
		"and the first probe was only admitted at t+%d ms. A completion that lost the race for opening the breaker and "+
		"was delayed by 600 ms moved the retry deadline of the running open period to (its own clock reading + RetryTimeoutMs). "+
		"The property demands: rejected until the retry timeout has elapsed, after which one probe is admitted.",
		openAt, retry, retry, blk.BlockType(), admittedAt)
}

// ---------------------------------------------------------------------------------------------
// Finding 2
// ---------------------------------------------------------------------------------------------

// The listeners are called after the state word has been changed, outside any critical section
// (in fromClosedToOpen there is even a clock reading and a CAS loop in between). The next
// transition, made by another goroutine, can be notified first: the listeners then see a sequence
// that is no path of the state machine, and end up with a last notified state that is not the state
// of the breaker.
func TestAudit_ListenersSeeTransitionsOutOfOrder(t *testing.T) {
	const res = "audit-c03-listener-order"
	const retry = 20
	clock := newAuditClock(auditT0)
	sc, l, cb := auditSetup(t, clock, &Rule{
		Resource: res, Strategy: ErrorCount, Threshold: 1, MinRequestAmount: 1,
		StatIntervalMs: 10000, StatSlidingWindowBucketCount: 1, RetryTimeoutMs: retry,
	})

	e1, b1 := auditEnter(sc, res)
	if b1 != nil {
		t.Fatalf("closed breaker must admit")
	}
	openAt := auditT0 + 10
	clock.set(openAt)

	// request 1 fails and trips the breaker: its goroutine is descheduled after the CAS Closed->Open,
	// before it has called the listeners (at the second updateNextRetryTimestamp of fromClosedToOpen).
	clock.holdAtRetryTimestampUpdate(2)
	done := make(chan struct{})
	go func() {
		e1.Exit(base.WithError(errors.New("boom")))
		close(done)
	}()
	<-clock.parked
	if cb.CurrentState() != Open {
		t.Fatalf("setup: breaker should be open, is %v", cb.CurrentState())
	}

	// the retry timeout (20 ms) passes; a probe is admitted and succeeds: the breaker closes.
	clock.set(openAt + retry)
	p, blk := auditEnter(sc, res)
	if blk != nil {
		t.Fatalf("setup: probe should be admitted after the retry timeout")
	}
	clock.set(openAt + retry + 1)
	p.Exit()
	if cb.CurrentState() != Closed {
		t.Fatalf("setup: breaker should be closed after the successful probe, is %v", cb.CurrentState())
	}

	// now the first goroutine runs again and delivers its notification.
	clock.release <- struct{}{}
	<-done

	events := l.snapshot()
	cur := Closed
	legal := true
	for _, ev := range events {
		if ev.prev != cur {
			legal = false
		}
		cur = ev.to
	}
	final := cb.CurrentState()
	if !legal || cur != final {
		t.Fatalf("listeners were notified of %v; breaker state at the end: %s. This is not a path of the state machine starting "+
			"at Closed (the first thing the listeners hear is Open->HalfOpen, and the last thing they hear is that the breaker is "+
			"Open while it is Closed and admits everything). The property demands that listeners observe the transitions as a "+
			"legal path from Closed: Closed->Open, Open->HalfOpen, HalfOpen->Closed.",
			events, final.String())
	}
}

// ---------------------------------------------------------------------------------------------
// Finding 3
// ---------------------------------------------------------------------------------------------

// OnRequestComplete returns before looking at the state machine when the statistic bucket of "now"
// cannot be obtained. With more than one bucket that is the case whenever the clock reads a time whose
// bucket slot already holds a later cycle, i.e. after the wall clock was set back. If the completion
// that is dropped this way is the probe's, nothing ever moves the breaker out of HalfOpen again:
// no request is admitted (ProbeNum 0), so there is no further completion, and time alone does nothing.
func TestAudit_ProbeCompletionDroppedAfterClockSetBack_StuckHalfOpen(t *testing.T) {
	const res = "audit-c03-clock-back"
	const retry = 1000
	clock := newAuditClock(auditT0)
	sc, l, cb := auditSetup(t, clock, &Rule{
		Resource: res, Strategy: ErrorCount, Threshold: 1, MinRequestAmount: 1,
		StatIntervalMs: 1000, StatSlidingWindowBucketCount: 2, RetryTimeoutMs: retry,
	})

	r1, _ := auditEnter(sc, res)
	r2, _ := auditEnter(sc, res)
	if r1 == nil || r2 == nil {
		t.Fatalf("closed breaker must admit")
	}
	clock.set(auditT0 + 100)
	r1.Exit(base.WithError(errors.New("boom"))) // opens at t0+100, retry deadline t0+1100
	if cb.CurrentState() != Open {
		t.Fatalf("setup: breaker should be open")
	}
	clock.set(auditT0 + 1050)
	r2.Exit() // a straggler completes while the breaker is open: only counted
	if cb.CurrentState() != Open {
		t.Fatalf("setup: breaker should still be open")
	}
	clock.set(auditT0 + 1100)
	probe, blk := auditEnter(sc, res)
	if blk != nil || cb.CurrentState() != HalfOpen {
		t.Fatalf("setup: probe should be admitted at the retry deadline")
	}

	// the wall clock is corrected backwards by one second while the probe is running
	clock.set(auditT0 + 150)
	probe.Exit() // the probe succeeds

	stateAfterProbe := cb.CurrentState()

	// time goes on normally from there, for an hour
	admitted := false
	for d := uint64(150); d <= 3600*1000; d += 500 {
		clock.set(auditT0 + d)
		if e, blk := auditEnter(sc, res); blk == nil {
			admitted = true
			e.Exit()
			break
		}
	}
	if stateAfterProbe != Closed || !admitted {
		t.Fatalf("the single required probe (ProbeNum 0) completed successfully, but the breaker is %s afterwards and "+
			"still %s one hour later; admitted any request in that hour: %v; transitions notified: %v. "+
			"The completion of the probe was dropped (no bucket for a time that lies behind the newest bucket of its slot, "+
			"after the clock was set back by 1 s), together with the state transition it had to cause. "+
			"The property demands that the required number of successful probes closes the breaker; a breaker that "+
			"rejects every request for good is in none of the three specified states' behaviour.",
			stateAfterProbe.String(), func() string { s := cb.CurrentState(); return s.String() }(), admitted, l.snapshot())
	}
}
