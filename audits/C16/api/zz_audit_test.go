package api

import (
	"testing"

	"github.com/alibaba/sentinel-golang/core/base"
)

// zzAuditConstBlockSlot is a rule-check slot that blocks every request with one
// pre-built, never modified (by the slot) blocked TokenResult. This is the cheapest
// way to write an "always block" slot and is exactly what the mocks of the library's
// own tests do (`.Return(base.NewTokenResultBlocked(...))`).
type zzAuditConstBlockSlot struct {
	order  uint32
	result *base.TokenResult
	calls  int
}

func (s *zzAuditConstBlockSlot) Order() uint32 { return s.order }
func (s *zzAuditConstBlockSlot) Check(_ *base.EntryContext) *base.TokenResult {
	s.calls++
	return s.result
}

// zzAuditLaterSlot is a rule-check slot ordered after the blocking one; it must never run.
type zzAuditLaterSlot struct {
	order uint32
	calls int
}

func (s *zzAuditLaterSlot) Order() uint32 { return s.order }
func (s *zzAuditLaterSlot) Check(_ *base.EntryContext) *base.TokenResult {
	s.calls++
	return nil
}

type zzAuditStatSlot struct {
	passed, blocked, completed int
}

func (s *zzAuditStatSlot) Order() uint32                      { return 0 }
func (s *zzAuditStatSlot) OnEntryPassed(_ *base.EntryContext) { s.passed++ }
func (s *zzAuditStatSlot) OnCompleted(_ *base.EntryContext)   { s.completed++ }
func (s *zzAuditStatSlot) OnEntryBlocked(_ *base.EntryContext, _ *base.BlockError) {
	s.blocked++
}

// Property: "the first rule-check slot that blocks determines the block error returned
// to the caller and no later rule-check slot runs ... every statistic slot is told the
// final outcome exactly once", over "subsequent traffic that recycles pooled objects".
//
// SlotChain.Entry stores the TokenResult returned by the blocking slot into the pooled
// EntryContext (ctx.RuleCheckResult = ruleCheckRet). When the blocked entry is exited,
// EntryContext.Reset() calls ctx.RuleCheckResult.ResetToPass() on that object, i.e. the
// chain rewrites an object owned by the slot (status -> Pass, blockErr -> nil), and then
// puts it into the context pool. From the second request on, the slot's "blocked" answer
// has silently become "pass": the request is admitted, later rule-check slots run and the
// statistic slots are told "passed".
func TestAuditBlockedResultOfSlotIsResetByRecycledContext(t *testing.T) {
	const msg = "always blocked by audit slot"
	blocker := &zzAuditConstBlockSlot{
		order:  1,
		result: base.NewTokenResultBlockedWithMessage(base.BlockTypeIsolation, msg),
	}
	later := &zzAuditLaterSlot{order: 2}
	st := &zzAuditStatSlot{}
	sc := base.NewSlotChain()
	sc.AddRuleCheckSlot(blocker)
	sc.AddRuleCheckSlot(later)
	sc.AddStatSlot(st)

	const n = 3
	for i := 1; i <= n; i++ {
		e, b := Entry("zz-audit-const-block", WithSlotChain(sc))
		if b == nil {
			if e != nil {
				e.Exit()
			}
			t.Fatalf("request #%d was ADMITTED although the first rule-check slot returned its blocked TokenResult "+
				"(the slot was called %d times and always returns the same result object; that object now reads: %s). "+
				"Statistic slot saw passed=%d blocked=%d completed=%d, later rule-check slot ran %d times. "+
				"The property demands that the first blocking rule-check slot determines the block error returned to the caller "+
				"(BlockTypeIsolation / %q) for every request, that no later rule-check slot runs, and that statistic slots are told 'blocked'; "+
				"exiting the previous blocked entry reset the slot's own TokenResult to Pass via the recycled EntryContext",
				i, blocker.calls, blocker.result.String(), st.passed, st.blocked, st.completed, later.calls, msg)
		}
		if e != nil {
			t.Fatalf("request #%d: blocked request returned a non-nil entry", i)
		}
		if b.BlockType() != base.BlockTypeIsolation || b.BlockMsg() != msg {
			t.Fatalf("request #%d: block error handed to the caller is %q, the blocking slot returned BlockTypeIsolation / %q",
				i, b.Error(), msg)
		}
	}
	if st.blocked != n || st.passed != 0 || st.completed != 0 || later.calls != 0 {
		t.Fatalf("after %d blocked requests: statistic slot saw passed=%d blocked=%d completed=%d, later rule-check slot ran %d times; "+
			"want passed=0 blocked=%d completed=0 and the later slot never run",
			n, st.passed, st.blocked, st.completed, later.calls, n)
	}
}
