package api

import (
	"sync"
	"testing"
	"time"

	"github.com/alibaba/sentinel-golang/core/base"
	"github.com/alibaba/sentinel-golang/core/circuitbreaker"
	"github.com/alibaba/sentinel-golang/core/config"
	"github.com/alibaba/sentinel-golang/core/hotspot"
	"github.com/alibaba/sentinel-golang/core/isolation"
	"github.com/alibaba/sentinel-golang/core/outlier"
	"github.com/alibaba/sentinel-golang/logging"
	"github.com/alibaba/sentinel-golang/util"
)

var auditInitOnce sync.Once

func auditInit(t *testing.T) {
	auditInitOnce.Do(func() {
		conf := config.NewDefaultConfig()
		conf.Sentinel.Log.Logger = logging.NewConsoleLogger()
		conf.Sentinel.Log.Metric.FlushIntervalSec = 0
		conf.Sentinel.Stat.System.CollectIntervalMs = 0
		conf.Sentinel.Stat.System.CollectMemoryIntervalMs = 0
		conf.Sentinel.Stat.System.CollectCpuIntervalMs = 0
		conf.Sentinel.Stat.System.CollectLoadIntervalMs = 0
		if err := InitWithConfig(conf); err != nil {
			t.Fatalf("init: %v", err)
		}
	})
}

func auditHotspotRule(res string, threshold int64) *hotspot.Rule {
	// a freshly allocated rule object for every load
	return &hotspot.Rule{
		Resource:        res,
		MetricType:      hotspot.QPS,
		ControlBehavior: hotspot.Reject,
		ParamIndex:      0,
		Threshold:       threshold,
		BurstCount:      0,
		DurationInSec:   10,
	}
}

// Finding 1: a hotspot Reject rule that replaces a rule of the same resource (same duration, capacity and
// behaviour, other threshold) takes over the old controller's token cache. The budget that the OLD threshold
// left for a value goes on deciding the traffic of that value until the old window has passed.
func TestAuditHotspotReloadKeepsTokenBudgetOfReplacedRule(t *testing.T) {
	auditInit(t)
	clock := util.NewMockClock()
	util.SetClock(clock)
	defer util.SetClock(util.NewRealClock())
	defer hotspot.ClearRules()

	enter := func(res string, arg interface{}) bool {
		e, b := Entry(res, WithTrafficType(base.Inbound), WithArgs(arg))
		if b != nil {
			return false
		}
		e.Exit()
		return true
	}

	// ---- direction A: 100 per 10 s replaced by 1 per 10 s
	const resA = "audit-hotspot-A"
	if _, err := hotspot.LoadRules([]*hotspot.Rule{auditHotspotRule(resA, 100)}); err != nil {
		t.Fatal(err)
	}
	if !enter(resA, "x") {
		t.Fatal("first request under the 100-per-10s rule was blocked")
	}
	clock.Sleep(time.Second)
	changed, err := hotspot.LoadRules([]*hotspot.Rule{auditHotspotRule(resA, 1)})
	if err != nil || !changed {
		t.Fatalf("reload: changed=%v err=%v", changed, err)
	}
	if got := hotspot.GetRulesOfResource(resA); len(got) != 1 || got[0].Threshold != 1 {
		t.Fatalf("getter does not report the new rule: %+v", got)
	}
	clock.Sleep(time.Second)
	passed := 0
	for i := 0; i < 20; i++ {
		if enter(resA, "x") {
			passed++
		}
	}
	if passed > 1 {
		t.Errorf("hotspot: after LoadRules replaced {Threshold:100, DurationInSec:10} by {Threshold:1, DurationInSec:10} "+
			"(getter reports Threshold 1), %d of 20 requests for value \"x\" passed within 1 s: the token budget of the "+
			"replaced rule (99 left) still decides. The property demands that only the rules of the most recent load "+
			"govern traffic and that the previously loaded rule is gone: at most 1 request per 10 s may pass.", passed)
	}

	// ---- direction B: 1 per 10 s replaced by 100 per 10 s
	const resB = "audit-hotspot-B"
	if _, err := hotspot.LoadRulesOfResource(resB, []*hotspot.Rule{auditHotspotRule(resB, 1)}); err != nil {
		t.Fatal(err)
	}
	if !enter(resB, "y") {
		t.Fatal("first request under the 1-per-10s rule was blocked")
	}
	changed, err = hotspot.LoadRulesOfResource(resB, []*hotspot.Rule{auditHotspotRule(resB, 100)})
	if err != nil || !changed {
		t.Fatalf("reload: changed=%v err=%v", changed, err)
	}
	clock.Sleep(time.Second)
	if !enter(resB, "y") {
		t.Errorf("hotspot: after LoadRulesOfResource replaced {Threshold:1, DurationInSec:10} by {Threshold:100, DurationInSec:10}, " +
			"the 2nd request of value \"y\" in the window was blocked: the exhausted budget of the replaced rule still decides. " +
			"The property demands that the enforced rule is the one of the most recent load (100 per 10 s).")
	}
}

// Finding 2: isolation.LoadRulesOfResource does not look at the Resource of the rules it is given (flow, hotspot
// and circuitbreaker skip rules of another resource). A rule naming resource B, loaded under A, limits A; the
// getters report a rule for B, B itself is not limited.
func TestAuditIsolationPerResourceLoadEnforcesRuleOfAnotherResource(t *testing.T) {
	auditInit(t)
	defer isolation.ClearRules()
	const resA, resB = "audit-iso-A", "audit-iso-B"

	if _, err := isolation.LoadRules([]*isolation.Rule{{Resource: resA, MetricType: isolation.Concurrency, Threshold: 100}}); err != nil {
		t.Fatal(err)
	}
	// the per-resource load for A carries (only) a rule that names B
	if _, err := isolation.LoadRulesOfResource(resA, []*isolation.Rule{{Resource: resB, MetricType: isolation.Concurrency, Threshold: 1}}); err != nil {
		t.Fatal(err)
	}

	// probe A: two concurrent entries
	e1, b1 := Entry(resA)
	if b1 != nil {
		t.Fatalf("first entry of A blocked: %v", b1)
	}
	defer e1.Exit()
	e2, b2 := Entry(resA)
	if b2 == nil {
		e2.Exit()
	}
	// probe B: two concurrent entries
	f1, c1 := Entry(resB)
	if c1 != nil {
		t.Fatalf("first entry of B blocked: %v", c1)
	}
	defer f1.Exit()
	f2, c2 := Entry(resB)
	if c2 == nil {
		f2.Exit()
	}

	reported := isolation.GetRules()
	var names []string
	for _, r := range reported {
		names = append(names, r.Resource)
	}
	if b2 != nil {
		rule, _ := b2.TriggeredRule().(*isolation.Rule)
		t.Errorf("isolation: LoadRulesOfResource(%q, [{Resource:%q, Threshold:1}]): the 2nd concurrent entry of %q was blocked by the rule %v "+
			"that names %q; GetRules() reports rules for %v, GetRulesOfResource(%q)=%v, and %q itself is limited: %v. "+
			"The property demands that other resources are untouched, that a resource is governed by ITS valid rules of the most recent load "+
			"(here: none for %q), and that the reported rules are the enforced ones (reported: a limit on %q; enforced: a limit on %q).",
			resA, resB, resA, rule, resB, names, resB, isolation.GetRulesOfResource(resB), resB, c2 != nil, resA, resB, resA)
	}
}

// Finding 3: an identical reload is reported as 'changed'. outlier compares the rules with reflect.DeepEqual,
// and a non-nil func field (RecoveryCheckFunc, which active recovery needs) is never DeepEqual to itself.
func TestAuditOutlierIdenticalReloadWithRecoveryCheckFuncReportsChanged(t *testing.T) {
	defer outlier.ClearRules()
	check := func(address string) bool { return true }
	mk := func() *outlier.Rule {
		return &outlier.Rule{
			Rule: &circuitbreaker.Rule{
				Resource:         "audit-outlier",
				Strategy:         circuitbreaker.ErrorCount,
				RetryTimeoutMs:   1000,
				MinRequestAmount: 1,
				StatIntervalMs:   1000,
				Threshold:        1,
			},
			EnableActiveRecovery: true,
			MaxEjectionPercent:   0.5,
			RecoveryIntervalMs:   1000,
			RecycleIntervalS:     60,
			MaxRecoveryAttempts:  3,
			RecoveryCheckFunc:    check,
		}
	}
	changed, err := outlier.LoadRules([]*outlier.Rule{mk()})
	if err != nil || !changed {
		t.Fatalf("first load: changed=%v err=%v", changed, err)
	}
	if got := outlier.GetRules(); len(got) != 1 {
		t.Fatalf("rule not loaded: %+v", got)
	}
	changed, err = outlier.LoadRules([]*outlier.Rule{mk()})
	if err != nil {
		t.Fatal(err)
	}
	changed2, err := outlier.LoadRuleOfResource("audit-outlier", mk())
	if err != nil {
		t.Fatal(err)
	}
	if changed || changed2 {
		t.Errorf("outlier: a valid rule with a RecoveryCheckFunc was loaded, then an identical rule (same field values, same check function) was loaded again: "+
			"LoadRules reported changed=%v, LoadRuleOfResource reported changed=%v. The property demands that an identical reload reports 'unchanged'.",
			changed, changed2)
	}
}
