package iris

import (
	"errors"
	"net/http"
	"strings"
	"testing"

	sentinel "github.com/alibaba/sentinel-golang/api"
	"github.com/kataras/iris/v12"
	"github.com/kataras/iris/v12/httptest"
)

// Review finding (commit 45f9d91): the adapter takes the error an earlier handler left in the context out of
// the slot with GetErr() and puts it back with SetErr(). GetErr() UNWRAPS an error that was stored with
// SetErrPrivate, so what is put back is the bare error: an error that iris was told never to show to the
// client has become a public one, and iris' default error handler writes its text into the response body.
func TestReviewIrisAdapterMakesPrivateErrorPublic(t *testing.T) {
	if err := sentinel.InitDefault(); err != nil {
		t.Fatalf("Unexpected error: %+v", err)
	}
	const secret = "dial tcp 10.1.2.3:5432: password authentication failed for user admin"

	run := func(withAdapter bool) (publicAfterwards bool, body string) {
		app := iris.New()
		// an earlier handler notes a failure that must stay internal and goes on
		app.Use(func(ctx iris.Context) {
			ctx.SetErrPrivate(errors.New(secret))
			ctx.Next()
		})
		if withAdapter {
			app.Use(SentinelMiddleware())
		}
		app.Get("/review-private", func(ctx iris.Context) {
			// fails without a body and without an error of its own: iris' default error handler answers
			ctx.StatusCode(http.StatusInternalServerError)
		})
		app.UseRouter(func(ctx iris.Context) {
			ctx.Next()
			publicAfterwards, _ = ctx.GetErrPublic()
		})
		e := httptest.New(t, app)
		body = e.GET("/review-private").Expect().Status(http.StatusInternalServerError).Body().Raw()
		return
	}

	public, body := run(false)
	if public || strings.Contains(body, "password") {
		t.Fatalf("premise: without the adapter the private error stays private, got public=%v body=%q", public, body)
	}

	public, body = run(true)
	if public || strings.Contains(body, "password") {
		t.Errorf("an error stored with SetErrPrivate before the sentinel middleware came out of it as a PUBLIC error "+
			"(GetErrPublic()=%v) and the response body sent to the client is %q; the adapter must leave the earlier "+
			"error as it was (private, body %q)", public, body, http.StatusText(http.StatusInternalServerError))
	}
}
