package circuitbreaker

import (
	"errors"
	"sync"
	"testing"
	"time"

	"github.com/alibaba/sentinel-golang/core/base"
	"github.com/alibaba/sentinel-golang/util"
)

type reviewClock struct {
	mu  sync.Mutex
	now time.Time
}

func (c *reviewClock) Now() time.Time {
	c.mu.Lock()
	defer c.mu.Unlock()
	return c.now
}
func (c *reviewClock) Sleep(d time.Duration) {
	c.mu.Lock()
	c.now = c.now.Add(d)
	c.mu.Unlock()
}
func (c *reviewClock) CurrentTimeMillis() uint64 { return uint64(c.Now().UnixNano()) / 1e6 }
func (c *reviewClock) CurrentTimeNano() uint64   { return uint64(c.Now().UnixNano()) }

// reviewEntry is api.entry() in two halves, so that the test can put the completion of another request
// between "the slot chain has been run" and "the blocked entry exits" - which is where another goroutine's
// Exit() can fall.
type reviewEntry struct {
	e       *base.SentinelEntry
	blocked bool
}

func reviewBegin(sc *base.SlotChain, res string) *reviewEntry {
	rw := base.NewResourceWrapper(res, base.ResTypeCommon, base.Outbound)
	ctx := sc.GetPooledContext()
	ctx.Resource = rw
	ctx.Input.BatchCount = 1
	e := base.NewSentinelEntry(ctx, rw, sc)
	ctx.SetEntry(e)
	r := sc.Entry(ctx)
	return &reviewEntry{e: e, blocked: r != nil && r.IsBlocked()}
}

// Review finding (commit 556e90c): "a success is counted only while the passage its completion found is
// still the current one, under a lock shared with the transitions that end a passage". One transition that
// ends a passage to half-open was left out: the exit hook of fromOpenToHalfOpen, which hands the passage
// back (HalfOpen -> Open) when the probing entry turns out to be blocked by somebody else. It neither takes
// the lock nor resets the count. A success counted in the passage that the hook ends is carried into the
// NEXT passage, which is then closed one successful probe early - the very symptom of the commit message.
func TestReviewProbeCountSurvivesPassageHandedBackByExitHook(t *testing.T) {
	clock := &reviewClock{now: time.Unix(1700000000, 0)}
	oldClock := util.CurrentClock()
	util.SetClock(clock)
	defer util.SetClock(oldClock)
	ClearStateChangeListeners()

	const res = "review-556e90c-exit-hook"
	// two breakers of one resource; the first needs TWO successful probes to close
	_, err := LoadRulesOfResource(res, []*Rule{
		{Resource: res, Strategy: ErrorCount, Threshold: 1, MinRequestAmount: 1, StatIntervalMs: 10000,
			RetryTimeoutMs: 1000, ProbeNum: 2},
		{Resource: res, Strategy: ErrorCount, Threshold: 1, MinRequestAmount: 1, StatIntervalMs: 10000,
			RetryTimeoutMs: 5000},
	})
	if err != nil {
		t.Fatal(err)
	}
	defer ClearRulesOfResource(res)
	cbs := getBreakersOfResource(res)
	if len(cbs) != 2 || cbs[0].BoundRule().ProbeNum != 2 {
		t.Fatalf("premise: two breakers, the first with ProbeNum 2: %v", cbs)
	}
	cb1, cb2 := cbs[0], cbs[1]

	sc := base.NewSlotChain()
	sc.AddRuleCheckSlot(DefaultSlot)
	sc.AddStatSlot(DefaultMetricStatSlot)

	// a long call L is admitted while everything is closed
	long := reviewBegin(sc, res)
	if long.blocked {
		t.Fatal("premise: L passes")
	}
	// a failing call opens both breakers
	clock.Sleep(10 * time.Millisecond)
	f := reviewBegin(sc, res)
	f.e.Exit(base.WithError(errors.New("biz")))
	if cb1.CurrentState() != Open || cb2.CurrentState() != Open {
		t.Fatalf("premise: both open, got %v %v", cb1.CurrentState(), cb2.CurrentState())
	}

	// Retry timeout of the first breaker only: entry A starts its first passage to half-open and is then
	// blocked by the second breaker.
	clock.Sleep(1500 * time.Millisecond)
	a := reviewBegin(sc, res)
	if !a.blocked || cb1.CurrentState() != HalfOpen {
		t.Fatalf("premise: A is the probe of cb1 and is blocked by cb2: blocked=%v cb1=%v", a.blocked, cb1.CurrentState())
	}
	// ... meanwhile (another goroutine) L completes successfully: one success for THIS passage, two are needed
	long.e.Exit()
	if cb1.CurrentState() != HalfOpen {
		t.Fatalf("premise: one success of two does not close cb1, got %v", cb1.CurrentState())
	}
	// ... and the blocked entry A exits: its hook hands the passage back
	a.e.Exit()
	if cb1.CurrentState() != Open {
		t.Fatalf("premise: the passage of the blocked probe is handed back, cb1=%v", cb1.CurrentState())
	}

	// The next passage: both retry timeouts have passed, C is admitted and succeeds. That is ONE successful
	// probe in this passage.
	clock.Sleep(6000 * time.Millisecond)
	c := reviewBegin(sc, res)
	if c.blocked || cb1.CurrentState() != HalfOpen {
		t.Fatalf("premise: C is admitted as a probe: blocked=%v cb1=%v", c.blocked, cb1.CurrentState())
	}
	c.e.Exit()
	if got := cb1.CurrentState(); got != HalfOpen {
		t.Errorf("breaker with ProbeNum=2 is %s after ONE successful probe in its second passage to half-open: the success "+
			"counted in the first passage (which ended when the blocked probe's exit hook set the breaker back to Open) was "+
			"carried over. It should still be HalfOpen and wait for a second successful probe; the count must be reset "+
			"(under probeMu) by every transition that ends a passage, the exit hook included.", got.String())
	}
}
