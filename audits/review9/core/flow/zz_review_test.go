package flow

import (
	"sync"
	"testing"
	"time"

	"github.com/alibaba/sentinel-golang/core/base"
	"github.com/alibaba/sentinel-golang/core/stat"
	"github.com/alibaba/sentinel-golang/util"
)

type reviewClock struct {
	mu  sync.Mutex
	now time.Time
}

func (c *reviewClock) Now() time.Time {
	c.mu.Lock()
	defer c.mu.Unlock()
	return c.now
}
func (c *reviewClock) Sleep(d time.Duration) {
	c.mu.Lock()
	c.now = c.now.Add(d)
	c.mu.Unlock()
}
func (c *reviewClock) setMillis(ms uint64) {
	c.mu.Lock()
	c.now = time.Unix(0, int64(ms)*int64(time.Millisecond))
	c.mu.Unlock()
}
func (c *reviewClock) CurrentTimeMillis() uint64 { return uint64(c.Now().UnixNano()) / 1e6 }
func (c *reviewClock) CurrentTimeNano() uint64   { return uint64(c.Now().UnixNano()) }

// reviewWarmUpDemand drives a steady demand of one request every 50 ms (200 per 10 s), each call taking
// 9 s, against the flow rules of res for the given number of 10 s intervals and returns the passes per
// interval. It does what the slots of the default chain do: flow check, then pass / block on the resource's
// statistic and on the rules' own statistics, and the completion on the resource's statistic 9 s later.
func reviewWarmUpDemand(clock *reviewClock, res string, startMs uint64, intervals int) []int {
	rw := base.NewResourceWrapper(res, base.ResTypeCommon, base.Inbound)
	node := stat.GetOrCreateResourceNode(res, base.ResTypeCommon)
	passes := make([]int, intervals)
	var completions []uint64 // ascending
	for t := startMs + 25; t < startMs+uint64(intervals)*10000; t += 50 {
		for len(completions) > 0 && completions[0] <= t {
			// a call ends (stat.Slot.OnCompleted)
			clock.setMillis(completions[0])
			completions = completions[1:]
			node.AddCount(base.MetricEventRt, 8990)
			node.AddCount(base.MetricEventComplete, 1)
		}
		clock.setMillis(t)
		ctx := &base.EntryContext{Resource: rw, StatNode: node, Input: &base.SentinelInput{BatchCount: 1}}
		r := DefaultSlot.Check(ctx)
		if r == nil || !r.IsBlocked() {
			node.AddCount(base.MetricEventPass, 1)
			DefaultStandaloneStatSlot.OnEntryPassed(ctx)
			passes[(t-startMs)/10000]++
			completions = append(completions, t+8990)
		} else {
			node.AddCount(base.MetricEventBlock, 1)
		}
	}
	return passes
}

// Review finding (commit bba0870, second item): "a rule counted per 10 s, the length of the resource's whole
// statistic, reused that statistic ... and the rule never warmed up when calls took some time. It gets a
// statistic of its own." It gets one only when the statistic is generated for it. A rule that is MODIFIED
// takes over the statistic of the rule it replaces (isStatReusable: same resource, relation and interval) -
// and a Direct/Reject rule of 10 s reuses the resource's statistic. Switching such a rule to WarmUp, which is
// what one does with a rule in production, yields exactly the warm-up rule the commit repaired: bound to the
// resource's statistic, and stuck at its cold rate for ever.
func TestReviewWarmUpRuleThatReplacesADirectRuleKeepsTheResourceStatistic(t *testing.T) {
	clock := &reviewClock{}
	oldClock := util.CurrentClock()
	util.SetClock(clock)
	defer util.SetClock(oldClock)

	warmUp := func(res string) *Rule {
		return &Rule{Resource: res, TokenCalculateStrategy: WarmUp, ControlBehavior: Reject, Threshold: 100,
			StatIntervalInMs: 10000, WarmUpPeriodSec: 30, WarmUpColdFactor: 3}
	}
	const intervals = 15
	start := uint64(1700000000000)

	// (1) the rule loaded as it is: what the commit repaired
	const fresh = "review-bba0870-fresh"
	clock.setMillis(start)
	if _, err := LoadRulesOfResource(fresh, []*Rule{warmUp(fresh)}); err != nil {
		t.Fatal(err)
	}
	defer ClearRulesOfResource(fresh)
	freshOwnStat := !getTrafficControllerListFor(fresh)[0].boundStat.reuseResourceStat
	freshPasses := reviewWarmUpDemand(clock, fresh, start, intervals)
	if !freshOwnStat || freshPasses[intervals-1] < 90 {
		t.Fatalf("premise: a 10 s warm-up rule that is loaded as such has a statistic of its own (%v) and warms up to its "+
			"threshold of 100 under a steady demand of 200 per interval; passes per interval: %v", freshOwnStat, freshPasses)
	}

	// (2) the same rule, loaded over a Direct rule of the same resource and interval
	const modified = "review-bba0870-modified"
	clock.setMillis(start)
	if _, err := LoadRulesOfResource(modified, []*Rule{{Resource: modified, TokenCalculateStrategy: Direct,
		ControlBehavior: Reject, Threshold: 100, StatIntervalInMs: 10000}}); err != nil {
		t.Fatal(err)
	}
	defer ClearRulesOfResource(modified)
	if _, err := LoadRulesOfResource(modified, []*Rule{warmUp(modified)}); err != nil {
		t.Fatal(err)
	}
	tcs := getTrafficControllerListFor(modified)
	if len(tcs) != 1 || tcs[0].BoundRule().TokenCalculateStrategy != WarmUp {
		t.Fatalf("premise: the warm-up rule is in force: %v", tcs)
	}
	modifiedOwnStat := !tcs[0].boundStat.reuseResourceStat
	modifiedPasses := reviewWarmUpDemand(clock, modified, start, intervals)
	if !modifiedOwnStat || modifiedPasses[intervals-1] < 90 {
		t.Errorf("a 10 s warm-up rule (threshold 100, cold factor 3, warm-up 30 s) that was loaded over a Direct rule of the "+
			"same resource and interval: statistic of its own = %v, passes per 10 s under a steady demand of 200 (calls of "+
			"9 s): %v. The same rule loaded on its own: statistic of its own = %v, passes %v. The modified rule took over "+
			"the resource's statistic from the rule it replaced, loses the first bucket of the previous interval to the "+
			"first Exit of each new interval and never leaves its cold rate; it should get a statistic of its own and "+
			"warm up to 100 like the other.", modifiedOwnStat, modifiedPasses, freshOwnStat, freshPasses)
	}
}
