package api

import (
	"sync/atomic"
	"testing"
	"time"

	"github.com/alibaba/sentinel-golang/core/base"
	"github.com/alibaba/sentinel-golang/core/hotspot"
)

// auditHotRule is a QPS / Reject hot-parameter rule on argument 0 with a window of 1000 s, so that no
// refill happens while the test runs: every value has exactly `threshold` tokens.
func auditHotRule(res string, threshold int64) *hotspot.Rule {
	return &hotspot.Rule{
		ID:              "r",
		Resource:        res,
		MetricType:      hotspot.QPS,
		ControlBehavior: hotspot.Reject,
		ParamIndex:      0,
		Threshold:       threshold,
		DurationInSec:   1000,
	}
}

func auditPasses(res string, n int) int {
	passes := 0
	for i := 0; i < n; i++ {
		e, b := Entry(res, WithArgs("K"))
		if b == nil {
			passes++
			e.Exit()
		}
	}
	return passes
}

// A hot-parameter rule with threshold 1000 is replaced by one with threshold 1 (same ID, i.e. the same rule,
// modified). One request for the value "K" runs while LoadRules is building the new controllers, i.e. it races
// with the rule update. Whatever side of the switch that request is put on, the value "K" has used up the
// single token the new rule grants per window once the load and the request are both over:
//
//	request before the load: it consumed 1 of 1000; the load carries "1 consumed" over: 0 of 1 left
//	load before the request: the request takes the one token of the new rule:        0 of 1 left
//
// (both serial orders are checked below). In the racing order the request is decided by the old rule list -
// and writes "999 left" into the counters that the new controller has already taken over. After the switch
// the NEW rule list decides on the OLD rule's budget: "K" is admitted far beyond the threshold of 1 for the
// rest of the window.
func TestAuditHotspotRequestRacingWithLoadLeavesOldBudgetInForce(t *testing.T) {
	hotspot.ClearRules()
	defer hotspot.ClearRules()

	// serial order 1: request, then load
	const resA = "zz-audit-hs-serial-request-first"
	if _, err := hotspot.LoadRules([]*hotspot.Rule{auditHotRule(resA, 1000)}); err != nil {
		t.Fatal(err)
	}
	if got := auditPasses(resA, 1); got != 1 {
		t.Fatalf("precondition: the request under the old rule (threshold 1000) must pass, passes=%d", got)
	}
	if _, err := hotspot.LoadRules([]*hotspot.Rule{auditHotRule(resA, 1)}); err != nil {
		t.Fatal(err)
	}
	if got := auditPasses(resA, 10); got != 0 {
		t.Fatalf("precondition (request, then load): expected 0 further passes under threshold 1, got %d", got)
	}
	// serial order 2: load, then request
	const resB = "zz-audit-hs-serial-load-first"
	if _, err := hotspot.LoadRules([]*hotspot.Rule{auditHotRule(resB, 1000)}); err != nil {
		t.Fatal(err)
	}
	if _, err := hotspot.LoadRules([]*hotspot.Rule{auditHotRule(resB, 1)}); err != nil {
		t.Fatal(err)
	}
	if got := auditPasses(resB, 1); got != 1 {
		t.Fatalf("precondition: the first request under the new rule (threshold 1) must pass, passes=%d", got)
	}
	if got := auditPasses(resB, 10); got != 0 {
		t.Fatalf("precondition (load, then request): expected 0 further passes under threshold 1, got %d", got)
	}

	// the racing order
	const res = "zz-audit-hs-racing"
	// A generator of a user-defined control behaviour serves as the point in time "LoadRules has built the
	// controller of the modified rule and has not published the new list yet": it lets another goroutine
	// run one Entry and waits for it. (It is only a way to get the interleaving on every run; a plain
	// goroutine that calls Entry while LoadRules runs gets there as well.)
	const marker = hotspot.ControlBehavior(77)
	var armed int32
	inBuild := make(chan struct{})
	raced := make(chan *base.BlockError, 1)
	if err := hotspot.SetTrafficShapingGenerator(marker, func(*hotspot.Rule, *hotspot.ParamsMetric) hotspot.TrafficShapingController {
		if atomic.CompareAndSwapInt32(&armed, 1, 0) {
			close(inBuild)
			select {
			case b := <-raced:
				raced <- b
			case <-time.After(10 * time.Second):
			}
		}
		return nil // the marker rule is declined: it never becomes part of a rule list
	}); err != nil {
		t.Fatal(err)
	}
	defer hotspot.RemoveTrafficShapingGenerator(marker)

	if _, err := hotspot.LoadRules([]*hotspot.Rule{auditHotRule(res, 1000)}); err != nil {
		t.Fatal(err)
	}
	go func() {
		<-inBuild
		e, b := Entry(res, WithArgs("K"))
		if b == nil {
			e.Exit()
		}
		raced <- b
	}()
	markerRule := &hotspot.Rule{ID: "marker", Resource: res, MetricType: hotspot.QPS, ControlBehavior: marker, ParamIndex: 0, Threshold: 1, DurationInSec: 1}
	atomic.StoreInt32(&armed, 1)
	if _, err := hotspot.LoadRules([]*hotspot.Rule{auditHotRule(res, 1), markerRule}); err != nil {
		t.Fatal(err)
	}
	if b := <-raced; b != nil {
		t.Fatalf("precondition: the racing request passes under either rule list, but it was blocked: %v", b)
	}
	rules := hotspot.GetRulesOfResource(res)
	if len(rules) != 1 || rules[0].Threshold != 1 {
		t.Fatalf("precondition: after the load the rule in force is the one with threshold 1, got %+v", rules)
	}

	if got := auditPasses(res, 10); got != 0 {
		t.Fatalf("after LoadRules replaced the rule {threshold 1000 per 1000s} by {threshold 1 per 1000s} while ONE request for "+
			"the value \"K\" was racing with the load, %d of 10 further requests for \"K\" passed under the new rule. "+
			"Put before the load or after it, the racing request leaves \"K\" with 0 of its 1 token (both serial orders "+
			"give 0 further passes, checked above); the property demands that a request racing with a rule update is decided "+
			"entirely by the old or entirely by the new rule list. Here the racing request was decided by the old list and "+
			"wrote the old rule's budget (999 left) into the counters the new controller had already taken over: the new "+
			"rule list now decides on the old rule's budget for the rest of the window", got)
	}
}
