package file

import (
	"io/ioutil"
	"os"
	"path/filepath"
	"testing"
	"time"

	"github.com/alibaba/sentinel-golang/core/flow"
	"github.com/alibaba/sentinel-golang/ext/datasource"
)

const (
	auditRulesA = `[{"resource":"audit-a","threshold":1}]`
	auditRulesB = `[{"resource":"audit-b","threshold":2}]`
)

// auditWaitFor polls cond for up to three seconds.
func auditWaitFor(cond func() bool) bool {
	for i := 0; i < 300; i++ {
		if cond() {
			return true
		}
		time.Sleep(10 * time.Millisecond)
	}
	return cond()
}

func auditResourcesInForce() []string {
	rs := flow.GetRules()
	out := make([]string, 0, len(rs))
	for _, r := range rs {
		out = append(out, r.Resource)
	}
	return out
}

func auditInForce(res ...string) func() bool {
	return func() bool {
		got := auditResourcesInForce()
		if len(got) != len(res) {
			return false
		}
		for i := range got {
			if got[i] != res[i] {
				return false
			}
		}
		return true
	}
}

// The file is unlinked while some other descriptor is still open on it (a tail -f, a backup job, an editor).
// The path is gone, the property demands that the rules are cleared. inotify announces the unlink of an
// open file as IN_ATTRIB only, and fsnotify v1.4.7 (the version in go.mod) drops every event that is not
// a removal or a rename when Lstat(path) says the path does not exist (Event.ignoreLinux) - so the event
// never reaches the datasource's loop, and the os.Stat branch that was added there for this very case is
// not executed.
func TestAuditUnlinkWhileOpenEventIsFilteredByFsnotifyAndTheRulesStay(t *testing.T) {
	_ = flow.ClearRules()
	defer func() { _ = flow.ClearRules() }()

	path := filepath.Join(t.TempDir(), "rules.json")
	if err := ioutil.WriteFile(path, []byte(auditRulesA), 0644); err != nil {
		t.Fatal(err)
	}
	ds := NewFileDataSource(path, datasource.NewFlowRulesHandler(datasource.FlowRuleJsonArrayParser))
	if err := ds.Initialize(); err != nil {
		t.Fatal(err)
	}
	if !auditWaitFor(auditInForce("audit-a")) {
		t.Fatalf("precondition: rules of the file are not in force: %v", auditResourcesInForce())
	}

	other, err := os.Open(path) // somebody else has the file open
	if err != nil {
		t.Fatal(err)
	}
	defer other.Close()
	if err := os.Remove(path); err != nil {
		t.Fatal(err)
	}
	if _, err := os.Stat(path); !os.IsNotExist(err) {
		t.Fatalf("precondition: the file should be gone, stat says %v", err)
	}

	if !auditWaitFor(auditInForce()) {
		t.Errorf("the watched file was removed (another descriptor was still open on it) and 3s later the rules %v are still in force; "+
			"the property demands that a file datasource clears the rules when the file is removed", auditResourcesInForce())
	}
}

// The configured path is a symbolic link (current-rules.json -> releases/v1/rules.json) and a new version
// is published by re-pointing the link (ln -sfn: symlink + rename over the path). Reading the path now
// yields the new content, the property demands that the datasource converges to it. inotify follows the
// link when the watch is added and watches the inode of v1: nothing happens to that inode, no event is
// delivered, the datasource serves v1 for ever - and it goes on applying writes to v1, which is not the
// file any more.
func TestAuditSymlinkedFileRepointedIsNeverNoticed(t *testing.T) {
	_ = flow.ClearRules()
	defer func() { _ = flow.ClearRules() }()

	dir := t.TempDir()
	v1 := filepath.Join(dir, "rules-v1.json")
	v2 := filepath.Join(dir, "rules-v2.json")
	if err := ioutil.WriteFile(v1, []byte(auditRulesA), 0644); err != nil {
		t.Fatal(err)
	}
	if err := ioutil.WriteFile(v2, []byte(auditRulesB), 0644); err != nil {
		t.Fatal(err)
	}
	path := filepath.Join(dir, "current-rules.json")
	if err := os.Symlink(v1, path); err != nil {
		t.Fatal(err)
	}
	ds := NewFileDataSource(path, datasource.NewFlowRulesHandler(datasource.FlowRuleJsonArrayParser))
	if err := ds.Initialize(); err != nil {
		t.Fatal(err)
	}
	if !auditWaitFor(auditInForce("audit-a")) {
		t.Fatalf("precondition: rules of the file are not in force: %v", auditResourcesInForce())
	}

	// publish v2: ln -sfn rules-v2.json current-rules.json
	tmp := path + ".tmp"
	if err := os.Symlink(v2, tmp); err != nil {
		t.Fatal(err)
	}
	if err := os.Rename(tmp, path); err != nil {
		t.Fatal(err)
	}
	now, err := ioutil.ReadFile(path)
	if err != nil || string(now) != auditRulesB {
		t.Fatalf("precondition: the path should yield the new content, got %q, %v", now, err)
	}

	if !auditWaitFor(auditInForce("audit-b")) {
		t.Errorf("the datasource's file now reads %s, but 3s after the change the rules in force are %v; "+
			"the property demands that a file datasource converges to the file's current content", now, auditResourcesInForce())
	}
}
