package system_test

// Audit of the property "system protection gates inbound traffic only, by the configured predicate".
// Every test here FAILS on the unmodified tree; see AUDIT.md at the root of the worktree.

import (
	"sync"
	"sync/atomic"
	"testing"
	"time"

	"github.com/alibaba/sentinel-golang/api"
	"github.com/alibaba/sentinel-golang/core/base"
	"github.com/alibaba/sentinel-golang/core/stat"
	"github.com/alibaba/sentinel-golang/core/system"
	"github.com/alibaba/sentinel-golang/core/system_metric"
	"github.com/alibaba/sentinel-golang/util"
)

// auditClock is a clock that only moves when the test moves it (and never really sleeps).
type auditClock struct{ ms int64 }

func (c *auditClock) Now() time.Time {
	return time.Unix(0, atomic.LoadInt64(&c.ms)*int64(time.Millisecond))
}
func (c *auditClock) Sleep(d time.Duration)     { atomic.AddInt64(&c.ms, int64(d/time.Millisecond)) }
func (c *auditClock) CurrentTimeMillis() uint64 { return uint64(atomic.LoadInt64(&c.ms)) }
func (c *auditClock) CurrentTimeNano() uint64 {
	return uint64(atomic.LoadInt64(&c.ms)) * uint64(time.Millisecond)
}

// One clock for all audit tests: the global inbound node was created at the real time of the
// package initialisation and must never see the time go backwards.
var auditClk = &auditClock{ms: time.Now().UnixNano()/int64(time.Millisecond) + 60000}

// auditFreshWindow installs the clock and moves it to the start of a bucket far enough ahead that
// the one-second window of the inbound node is empty.
func auditFreshWindow() {
	util.SetClock(auditClk)
	auditClk.Sleep(3 * time.Second)
	atomic.AddInt64(&auditClk.ms, 500-atomic.LoadInt64(&auditClk.ms)%500)
}

func auditInbound(res string, opts ...api.EntryOption) (*base.SentinelEntry, *base.BlockError) {
	opts = append([]api.EntryOption{api.WithTrafficType(base.Inbound)}, opts...)
	return api.Entry(res, opts...)
}

// auditServe lets n inbound requests of the given batch count run for rtMs milliseconds each.
func auditServe(t *testing.T, res string, n int, batch uint32, rtMs int) {
	entries := make([]*base.SentinelEntry, 0, n)
	for i := 0; i < n; i++ {
		e, b := auditInbound(res, api.WithBatchCount(batch))
		if b != nil {
			t.Fatalf("setup: inbound request %d was blocked: %v", i, b)
		}
		entries = append(entries, e)
	}
	auditClk.Sleep(time.Duration(rtMs) * time.Millisecond)
	for _, e := range entries {
		e.Exit()
	}
}

// Finding 1: the average response time divides the response times, which are added once per
// request, by the completions, which are added once per batch unit.
func TestAuditAvgRTRuleWithBatchedInboundRequests(t *testing.T) {
	defer system.ClearRules()
	if _, err := system.LoadRules([]*system.Rule{{MetricType: system.AvgRT, TriggerCount: 50, Strategy: system.NoAdaptive}}); err != nil {
		t.Fatal(err)
	}

	// control: four inbound requests of 100ms each, batch count 1
	auditFreshWindow()
	auditServe(t, "audit-avgrt", 4, 1, 100)
	e, b := auditInbound("audit-avgrt")
	if b == nil {
		e.Exit()
		t.Fatalf("setup: with batch count 1 the AvgRT rule (trigger 50ms) did not block after four inbound requests of 100ms; AvgRT()=%v",
			stat.InboundNode().AvgRT())
	}

	// the same traffic, every request entered with batch count 5
	auditFreshWindow()
	auditServe(t, "audit-avgrt", 4, 5, 100)
	avg := stat.InboundNode().AvgRT()
	e, b = auditInbound("audit-avgrt")
	if b == nil {
		e.Exit()
		t.Errorf("every inbound request in the window took 100ms, so the inbound average response time (100ms) has reached the "+
			"trigger of the loaded AvgRT rule (50ms) and the property demands a system block; but the request passed, because the "+
			"requests were entered with batch count 5 and the library reports an average of %vms (400ms of response time / 20 batch units)", avg)
	} else if b.BlockType() != base.BlockTypeSystemFlow {
		t.Errorf("blocked, but not by the system rule: %v", b)
	}
}

// Finding 2: MetricBucket.AddRt keeps the minimum with "load, compare, store"; two completions at
// the same time lose the smaller value, and the BBR capacity is computed from a minimum response
// time that no longer is the minimum.
func TestAuditBBRMinRtLostBetweenConcurrentCompletions(t *testing.T) {
	defer system.ClearRules()
	defer system_metric.SetSystemLoad(system_metric.NotRetrievedLoadValue)
	system_metric.SetSystemLoad(system_metric.NotRetrievedLoadValue)
	if _, err := system.LoadRules([]*system.Rule{{MetricType: system.Load, TriggerCount: 1, Strategy: system.BBR}}); err != nil {
		t.Fatal(err)
	}

	// response times of the eight inbound requests of a round; they all complete at the same instant
	rts := []int64{1600, 1500, 1400, 1300, 1200, 1100, 1000, 10}
	deadline := time.Now().Add(60 * time.Second)
	for round := 1; time.Now().Before(deadline); round++ {
		auditFreshWindow()
		end := atomic.LoadInt64(&auditClk.ms) + 2000
		entries := make([]*base.SentinelEntry, len(rts))
		for i, rt := range rts {
			atomic.StoreInt64(&auditClk.ms, end-rt)
			e, b := auditInbound("audit-minrt")
			if b != nil {
				t.Fatalf("setup: inbound request blocked although the load reading is below the trigger: %v", b)
			}
			entries[i] = e
		}
		atomic.StoreInt64(&auditClk.ms, end)
		var wg sync.WaitGroup
		var gate int32
		for _, e := range entries {
			wg.Add(1)
			go func(e *base.SentinelEntry) {
				defer wg.Done()
				atomic.AddInt32(&gate, 1)
				for atomic.LoadInt32(&gate) < int32(len(rts)) {
				}
				e.Exit()
			}(e)
		}
		wg.Wait()
		minRt := stat.InboundNode().MinRT()
		if minRt == 10 {
			continue
		}

		// Eight completions in the current 500ms bucket: peak completion rate 16/s. The minimum
		// response time in the window is 10ms, the estimated capacity 16/s * 0.010s = 0.16.
		// Three inbound requests are in flight and the load is above the trigger.
		held := make([]*base.SentinelEntry, 0, 3)
		for i := 0; i < 3; i++ {
			e, b := auditInbound("audit-minrt")
			if b != nil {
				t.Fatalf("setup: inbound request blocked although the load reading is below the trigger: %v", b)
			}
			held = append(held, e)
		}
		system_metric.SetSystemLoad(10)
		maxComplete := stat.InboundNode().GetMaxAvg(base.MetricEventComplete)
		inflight := stat.InboundNode().CurrentConcurrency()
		e, b := auditInbound("audit-minrt")
		system_metric.SetSystemLoad(system_metric.NotRetrievedLoadValue)
		for _, h := range held {
			h.Exit()
		}
		if b == nil {
			e.Exit()
			t.Fatalf("round %d: eight inbound requests with response times %v ms completed at the same instant, the minimum response time "+
				"in the window is 10ms, but the inbound node reports MinRT()=%vms (the 10 was overwritten by a concurrent completion). "+
				"Load 10 is above the trigger 1 of the loaded BBR rule, %d inbound requests are in flight and the estimated capacity is "+
				"peak completion rate %v/s * minimum response time 0.010s = %v, so the property demands a system block; the request passed "+
				"because the library computed the capacity %v from the wrong minimum",
				round, rts, minRt, inflight, maxComplete, maxComplete*10/1000, maxComplete*minRt/1000)
		}
		t.Fatalf("round %d: MinRT()=%v instead of 10, but the request was blocked: %v", round, minRt, b)
	}
	t.Log("the lost update did not show within 60s (it normally shows within a few hundred rounds)")
}

// Finding 3: a panic in an exit handler is recovered by SentinelEntry.Exit, but the statistic
// slots are never told that the request completed: the inbound in-flight count stays one too high
// for ever.
func TestAuditPanicInExitHandlerLeaksInboundConcurrency(t *testing.T) {
	defer system.ClearRules()
	auditFreshWindow()
	before := stat.InboundNode().CurrentConcurrency()

	e, b := auditInbound("audit-exit-panic")
	if b != nil {
		t.Fatalf("setup: blocked without rules: %v", b)
	}
	e.WhenExit(func(entry *base.SentinelEntry, ctx *base.EntryContext) error {
		panic("exit handler failed")
	})
	auditClk.Sleep(10 * time.Millisecond)
	e.Exit() // the panic is recovered and logged inside Exit

	after := stat.InboundNode().CurrentConcurrency()
	defer func() {
		for i := before; i < stat.InboundNode().CurrentConcurrency(); i++ {
			stat.InboundNode().DecreaseConcurrency()
		}
	}()

	auditFreshWindow()
	if _, err := system.LoadRules([]*system.Rule{{MetricType: system.Concurrency, TriggerCount: float64(before) + 1, Strategy: system.NoAdaptive}}); err != nil {
		t.Fatal(err)
	}
	e2, b2 := auditInbound("audit-exit-panic")
	if b2 != nil {
		t.Errorf("the only inbound request has exited (its exit handler panicked, Exit recovered the panic and returned), so %d inbound "+
			"requests are in flight and the loaded Concurrency rule (trigger %d) is not violated: the property demands that the request "+
			"passes; but it was rejected with %q, the inbound node still counts %d requests in flight (was %d before the request)",
			before, before+1, b2.Error(), after, before)
	} else {
		e2.Exit()
		if after != before {
			t.Errorf("inbound in-flight count is %d after the request exited, was %d before it", after, before)
		}
	}
}
