package api

import (
	"math"
	"testing"

	"github.com/alibaba/sentinel-golang/core/base"
	"github.com/alibaba/sentinel-golang/core/hotspot"
	"github.com/alibaba/sentinel-golang/ext/datasource"
)

// auditHotspotChain is a slot chain made of the two hotspot slots of the global chain.
func auditHotspotChain() *base.SlotChain {
	sc := base.NewSlotChain()
	sc.AddRuleCheckSlot(hotspot.DefaultSlot)
	sc.AddStatSlot(hotspot.DefaultConcurrencyStatSlot)
	return sc
}

// auditAdmitUpTo opens entries for arg until one is blocked (at most limit), reports how many were in flight
// together, and exits them all.
func auditAdmitUpTo(sc *base.SlotChain, res string, arg interface{}, limit int) int {
	var live []*base.SentinelEntry
	for i := 0; i < limit; i++ {
		e, b := Entry(res, WithSlotChain(sc), WithTrafficType(base.Inbound), WithArgs(arg))
		if b != nil {
			break
		}
		live = append(live, e)
	}
	for _, e := range live {
		e.Exit()
	}
	return len(live)
}

// Finding 1. A float argument that is NaN (a comparable, hashable Go value: nothing panics) is never limited:
// every lookup of the key NaN in the counter table misses, so every request is "the first one of its value".
func TestAuditNaNArgumentIsNeverLimited(t *testing.T) {
	_ = hotspot.ClearRules()
	defer hotspot.ClearRules()
	const res = "audit-c06-nan"
	if _, err := hotspot.LoadRules([]*hotspot.Rule{{Resource: res, MetricType: hotspot.Concurrency, ControlBehavior: hotspot.Reject, ParamIndex: 0, Threshold: 1}}); err != nil {
		t.Fatal(err)
	}
	sc := auditHotspotChain()

	if n := auditAdmitUpTo(sc, res, 1.5, 5); n != 1 {
		t.Fatalf("control: %d entries for the float value 1.5 in flight together, threshold 1", n)
	}
	if n := auditAdmitUpTo(sc, res, math.NaN(), 5); n != 1 {
		t.Errorf("threshold 1 for every value of argument 0: %d entries carrying the argument value NaN were admitted and in flight at the same time; "+
			"the property demands that a request for value v is admitted only while fewer than threshold(v)=1 entries for v are in flight - "+
			"the second NaN entry had to be blocked, exactly as the second entry for 1.5 was", n)
	}
}

// Finding 2. The JSON converter for hot-parameter rules rewrites the float values of the specific-item table
// (rounds them to 5 decimals), the request argument is not rewritten: the threshold configured for the value
// is never applied to it, and applies to a value nobody configured.
func TestAuditSpecificFloatItemFromJSONIsRewritten(t *testing.T) {
	_ = hotspot.ClearRules()
	defer hotspot.ClearRules()
	const res = "audit-c06-json-float"
	src := []byte(`[{"resource":"` + res + `","metricType":0,"controlBehavior":0,"paramIndex":0,"threshold":1,
		"specificItems":[{"valKind":3,"valStr":"0.1234567","threshold":3}]}]`)
	h := datasource.NewHotSpotParamRulesHandler(datasource.HotSpotParamRuleJsonArrayParser)
	if err := h.Handle(src); err != nil {
		t.Fatal(err)
	}
	if rs := hotspot.GetRulesOfResource(res); len(rs) != 1 {
		t.Fatalf("rule not loaded: %v", rs)
	}
	sc := auditHotspotChain()

	if n := auditAdmitUpTo(sc, res, 2.5, 5); n != 1 {
		t.Fatalf("control: %d entries for 2.5 in flight together, general threshold 1", n)
	}
	configured := auditAdmitUpTo(sc, res, 0.1234567, 5)
	other := auditAdmitUpTo(sc, res, 0.12346, 5)
	if configured != 3 || other != 1 {
		t.Errorf("rule from JSON: general threshold 1, specific item 0.1234567 -> 3. Entries in flight together for the argument value 0.1234567: %d (want 3, "+
			"the threshold configured for that value); for the argument value 0.12346, for which nothing was configured: %d (want 1, the general threshold). "+
			"The property demands admission iff the entries in flight for v are fewer than the threshold configured for v (specific or general)", configured, other)
	}
}
