package api

import (
	"context"
	"math"
	"os"
	"os/exec"
	"path/filepath"
	"runtime"
	"strconv"
	"strings"
	"testing"
	"time"

	"github.com/alibaba/sentinel-golang/core/flow"
	"github.com/alibaba/sentinel-golang/logging"
	"github.com/alibaba/sentinel-golang/util"
)

// auditFrozenClock is a clock that stands still at a fixed millisecond.
type auditFrozenClock struct{ ms uint64 }

func (c *auditFrozenClock) Now() time.Time            { return time.Unix(0, int64(c.ms)*int64(time.Millisecond)) }
func (c *auditFrozenClock) Sleep(time.Duration)       {}
func (c *auditFrozenClock) CurrentTimeMillis() uint64 { return c.ms }
func (c *auditFrozenClock) CurrentTimeNano() uint64   { return c.ms * uint64(time.Millisecond) }

// auditSilentLogger drops everything (finding 1 makes the library log an error with a stack trace on every turn of
// an endless loop).
type auditSilentLogger struct{}

func (auditSilentLogger) Debug(string, ...interface{})        {}
func (auditSilentLogger) DebugEnabled() bool                  { return false }
func (auditSilentLogger) Info(string, ...interface{})         {}
func (auditSilentLogger) InfoEnabled() bool                   { return false }
func (auditSilentLogger) Warn(string, ...interface{})         {}
func (auditSilentLogger) WarnEnabled() bool                   { return false }
func (auditSilentLogger) Error(error, string, ...interface{}) {}
func (auditSilentLogger) ErrorEnabled() bool                  { return false }

const auditChildEnv = "ZZ_AUDIT_32BIT_CHILD"

// Finding 1: where int has 32 bits (GOARCH=386, arm, mips, ...) no request to any resource is ever answered: the bucket
// index int(now/bucketLength) % length of LeapArray.calculateTimeIdx is negative for every present-day clock value.
//
// On a 32-bit platform the check runs directly. On amd64 / arm64 the test builds its own package for the 32-bit
// sibling architecture and runs this very test in the child (skipped if that is not possible on the machine).
func TestAudit_FlowRuleOn32BitIntPlatformNeverAnswers(t *testing.T) {
	if strconv.IntSize == 32 {
		audit32BitBody(t)
		return
	}
	if os.Getenv(auditChildEnv) != "" {
		t.Skip("child was not built for a 32-bit platform")
	}
	var goarch string
	switch runtime.GOARCH {
	case "amd64":
		goarch = "386"
	case "arm64":
		goarch = "arm"
	default:
		t.Skipf("no 32-bit sibling architecture known for %s", runtime.GOARCH)
	}
	goTool := filepath.Join(runtime.GOROOT(), "bin", "go")
	if _, err := os.Stat(goTool); err != nil {
		var lerr error
		if goTool, lerr = exec.LookPath("go"); lerr != nil {
			t.Skip("go tool not found, cannot build the 32-bit child")
		}
	}
	bin := filepath.Join(t.TempDir(), "audit32.test")
	build := exec.Command(goTool, "test", "-vet=off", "-c", "-o", bin, ".")
	build.Env = append(os.Environ(), "GOARCH="+goarch, "CGO_ENABLED=0")
	if out, err := build.CombinedOutput(); err != nil {
		t.Skipf("cannot build the package for GOARCH=%s: %v\n%s", goarch, err, out)
	}
	ctx, cancel := context.WithTimeout(context.Background(), 120*time.Second)
	defer cancel()
	child := exec.CommandContext(ctx, bin, "-test.run", "^TestAudit_FlowRuleOn32BitIntPlatformNeverAnswers$", "-test.v")
	child.Env = append(os.Environ(), auditChildEnv+"=1")
	out, err := child.CombinedOutput()
	text := string(out)
	if strings.Contains(text, "--- FAIL: TestAudit_FlowRuleOn32BitIntPlatformNeverAnswers") {
		msg := text
		if i := strings.Index(text, "AUDIT-32BIT:"); i >= 0 {
			msg = text[i:]
			if j := strings.Index(msg, "\n"); j >= 0 {
				msg = msg[:j]
			}
		}
		t.Fatalf("built for GOARCH=%s: %s", goarch, msg)
	}
	if err != nil && !strings.Contains(text, "--- PASS: TestAudit_FlowRuleOn32BitIntPlatformNeverAnswers") {
		t.Skipf("cannot run the GOARCH=%s binary on this machine: %v\n%.2000s", goarch, err, text)
	}
}

func audit32BitBody(t *testing.T) {
	old := logging.GetGlobalLogger()
	_ = logging.ResetGlobalLogger(auditSilentLogger{})
	defer func() { _ = logging.ResetGlobalLogger(old) }()
	util.SetClock(&auditFrozenClock{ms: 1_700_000_000_250})
	defer util.SetClock(util.NewRealClock())
	defer flow.ClearRules()

	const res = "audit-32bit"
	if _, err := flow.LoadRules([]*flow.Rule{{Resource: res, TokenCalculateStrategy: flow.Direct, ControlBehavior: flow.Reject, Threshold: 2}}); err != nil {
		t.Fatal(err)
	}
	answers := make(chan bool, 3)
	go func() {
		for i := 0; i < 3; i++ {
			e, b := Entry(res)
			if b == nil {
				e.Exit()
			}
			answers <- b == nil
		}
	}()
	want := []bool{true, true, false}
	for i := 0; i < 3; i++ {
		select {
		case got := <-answers:
			if got != want[i] {
				t.Fatalf("AUDIT-32BIT: request %d of batch 1 at one instant under a reject rule with threshold 2: admitted=%v, the property demands admitted=%v", i+1, got, want[i])
			}
		case <-time.After(5 * time.Second):
			t.Fatalf("AUDIT-32BIT: request %d under a reject rule with threshold 2 (clock 1700000000250 ms, nothing admitted before) was neither admitted nor rejected within 5s: api.Entry never returns, it spins in LeapArray.currentBucketOfTime because calculateTimeIdx = int(now/500) %% 20 is negative where int has %d bits; the property demands that the request is admitted (0+1 <= 2)", i+1, strconv.IntSize)
		}
	}
}

// Finding 2: the comparison "admitted + batch > threshold" is done in float64. Above 2^53 the admitted count (an
// int64) is rounded when it is converted, so a request is admitted although admitted+batch exceeds the threshold.
func TestAudit_ThresholdAbove2Pow53IsExceeded(t *testing.T) {
	util.SetClock(&auditFrozenClock{ms: 1_700_000_000_250})
	defer util.SetClock(util.NewRealClock())
	defer flow.ClearRules()

	const res = "audit-2pow53"
	const two53 = uint64(1) << 53
	threshold := float64(two53 + 2) // exactly representable
	if uint64(threshold) != two53+2 {
		t.Fatal("threshold not exact")
	}
	if _, err := flow.LoadRules([]*flow.Rule{{Resource: res, TokenCalculateStrategy: flow.Direct, ControlBehavior: flow.Reject, Threshold: threshold}}); err != nil {
		t.Fatal(err)
	}
	admitted := uint64(0)
	enter := func(b uint32) bool {
		e, be := Entry(res, WithBatchCount(b))
		if be != nil {
			return false
		}
		admitted += uint64(b)
		e.Exit()
		return true
	}
	// all within one instant, hence within one statistic window: 2^53+1 tokens, every request fits
	for admitted < two53+1 {
		b := uint64(math.MaxUint32)
		if rest := two53 + 1 - admitted; rest < b {
			b = rest
		}
		if !enter(uint32(b)) {
			t.Fatalf("setup: batch %d rejected with %d admitted under threshold %d", b, admitted, two53+2)
		}
	}
	// 2^53+1 admitted; a batch of 2 makes 2^53+3 > threshold 2^53+2
	if enter(2) {
		t.Fatalf("threshold %d (2^53+2), %d (2^53+1) tokens admitted in the current window: a request of batch 2 was admitted, the window now holds %d tokens; the property demands a rejection (admitted+batch = 2^53+3 exceeds the threshold) and that the admitted tokens of a window never exceed the threshold", two53+2, two53+1, admitted)
	}
}
