package api

import (
	"errors"
	"testing"

	"github.com/alibaba/sentinel-golang/core/base"
	"github.com/alibaba/sentinel-golang/core/circuitbreaker"
	"github.com/alibaba/sentinel-golang/core/flow"
	"github.com/alibaba/sentinel-golang/core/hotspot"
	"github.com/alibaba/sentinel-golang/core/isolation"
	"github.com/alibaba/sentinel-golang/core/outlier"
	"github.com/alibaba/sentinel-golang/core/stat"
	"github.com/alibaba/sentinel-golang/core/system"
)

// Finding 1.
// A load that replaces a rule by one that differs in its ID only returns "changed", but the rule
// object of the load before stays bound to the controller: the getters go on reporting the
// replaced rule, and the decisions are attributed to it (BlockError.TriggeredRule()).
func TestAudit_C13_ReloadWithNewIDKeepsReplacedRule(t *testing.T) {
	t.Run("flow", func(t *testing.T) {
		defer func() { _ = flow.ClearRules() }()
		const res = "audit-c13-id-flow"
		_ = flow.ClearRules()
		if _, err := flow.LoadRules([]*flow.Rule{{ID: "v1", Resource: res, Threshold: 0, StatIntervalInMs: 1000}}); err != nil {
			t.Fatal(err)
		}
		changed, err := flow.LoadRules([]*flow.Rule{{ID: "v2", Resource: res, Threshold: 0, StatIntervalInMs: 1000}})
		if err != nil {
			t.Fatal(err)
		}
		if !changed {
			t.Fatalf("flow.LoadRules with another ID reported 'unchanged'")
		}
		got := flow.GetRulesOfResource(res)
		if len(got) != 1 {
			t.Fatalf("want one rule for %s, got %v", res, got)
		}
		sc := base.NewSlotChain()
		sc.AddStatPrepareSlot(stat.DefaultResourceNodePrepareSlot)
		sc.AddRuleCheckSlot(flow.DefaultSlot)
		sc.AddStatSlot(stat.DefaultSlot)
		e, b := Entry(res, WithSlotChain(sc))
		if b == nil {
			e.Exit()
			t.Fatalf("threshold 0 did not block")
		}
		blamed := b.TriggeredRule().(*flow.Rule).ID
		if got[0].ID != "v2" || blamed != "v2" {
			t.Fatalf("flow: LoadRules([{ID v1,...}]) then LoadRules([{ID v2, same fields}]) returned changed=true, "+
				"but GetRulesOfResource reports ID %q and the block is attributed to rule ID %q; "+
				"the property demands that after the load returns the rules in force and the rules reported are "+
				"exactly the rules of the most recent load (ID v2) and that the previously loaded rule (ID v1) is gone",
				got[0].ID, blamed)
		}
	})
	t.Run("hotspot", func(t *testing.T) {
		defer func() { _ = hotspot.ClearRules() }()
		const res = "audit-c13-id-hotspot"
		_ = hotspot.ClearRules()
		mk := func(id string) *hotspot.Rule {
			return &hotspot.Rule{ID: id, Resource: res, MetricType: hotspot.QPS, ControlBehavior: hotspot.Reject,
				ParamIndex: 0, Threshold: 0, DurationInSec: 1}
		}
		if _, err := hotspot.LoadRules([]*hotspot.Rule{mk("v1")}); err != nil {
			t.Fatal(err)
		}
		changed, err := hotspot.LoadRulesOfResource(res, []*hotspot.Rule{mk("v2")})
		if err != nil || !changed {
			t.Fatalf("changed=%v err=%v", changed, err)
		}
		got := hotspot.GetRulesOfResource(res)
		if len(got) != 1 || got[0].ID != "v2" {
			t.Fatalf("hotspot: after LoadRulesOfResource([{ID v2, same fields as the loaded v1}]) returned changed=true "+
				"GetRulesOfResource reports %v; the property demands exactly the rules of the most recent load (ID v2)", got)
		}
	})
	t.Run("circuitbreaker", func(t *testing.T) {
		defer func() { _ = circuitbreaker.ClearRules() }()
		const res = "audit-c13-id-cb"
		_ = circuitbreaker.ClearRules()
		mk := func(id string) *circuitbreaker.Rule {
			return &circuitbreaker.Rule{Id: id, Resource: res, Strategy: circuitbreaker.ErrorCount, RetryTimeoutMs: 60000,
				MinRequestAmount: 1, StatIntervalMs: 10000, Threshold: 1}
		}
		if _, err := circuitbreaker.LoadRules([]*circuitbreaker.Rule{mk("v1")}); err != nil {
			t.Fatal(err)
		}
		changed, err := circuitbreaker.LoadRules([]*circuitbreaker.Rule{mk("v2")})
		if err != nil || !changed {
			t.Fatalf("changed=%v err=%v", changed, err)
		}
		sc := base.NewSlotChain()
		sc.AddStatPrepareSlot(stat.DefaultResourceNodePrepareSlot)
		sc.AddRuleCheckSlot(circuitbreaker.DefaultSlot)
		sc.AddStatSlot(stat.DefaultSlot)
		sc.AddStatSlot(circuitbreaker.DefaultMetricStatSlot)
		for i := 0; i < 3; i++ {
			e, b := Entry(res, WithSlotChain(sc))
			if b != nil {
				break
			}
			TraceError(e, errors.New("boom"))
			e.Exit()
		}
		e, b := Entry(res, WithSlotChain(sc))
		if b == nil {
			e.Exit()
			t.Fatalf("breaker did not open")
		}
		reported := circuitbreaker.GetRulesOfResource(res)
		blamed := b.TriggeredRule().(*circuitbreaker.Rule).Id
		if len(reported) != 1 || reported[0].Id != blamed {
			t.Fatalf("circuitbreaker: the getter reports %v but the breaker that decides is bound to rule Id %q; "+
				"the property demands that the reported rules are exactly those being enforced", reported, blamed)
		}
	})
}

// Finding 2.
// An identical reload of an EMPTY list reports 'changed'.
func TestAudit_C13_IdenticalEmptyReloadReportsChanged(t *testing.T) {
	t.Run("system.LoadRules", func(t *testing.T) {
		defer func() { _ = system.ClearRules() }()
		if _, err := system.LoadRules([]*system.Rule{{MetricType: system.InboundQPS, TriggerCount: 1000000}}); err != nil {
			t.Fatal(err)
		}
		first, err := system.LoadRules([]*system.Rule{})
		if err != nil || !first {
			t.Fatalf("first empty load: changed=%v err=%v", first, err)
		}
		for i := 0; i < 3; i++ {
			again, err := system.LoadRules([]*system.Rule{})
			if err != nil {
				t.Fatal(err)
			}
			if again {
				t.Fatalf("system.LoadRules([]*Rule{}) right after system.LoadRules([]*Rule{}) returned changed=true (repeat %d); "+
					"the property demands that an identical reload reports 'unchanged'", i+1)
			}
		}
	})
	t.Run("LoadRulesOfResource", func(t *testing.T) {
		const res = "audit-c13-empty"
		var bad []string
		_, _ = flow.LoadRulesOfResource(res, []*flow.Rule{})
		if again, _ := flow.LoadRulesOfResource(res, []*flow.Rule{}); again {
			bad = append(bad, "flow")
		}
		_, _ = isolation.LoadRulesOfResource(res, []*isolation.Rule{})
		if again, _ := isolation.LoadRulesOfResource(res, []*isolation.Rule{}); again {
			bad = append(bad, "isolation")
		}
		_, _ = hotspot.LoadRulesOfResource(res, []*hotspot.Rule{})
		if again, _ := hotspot.LoadRulesOfResource(res, []*hotspot.Rule{}); again {
			bad = append(bad, "hotspot")
		}
		_, _ = circuitbreaker.LoadRulesOfResource(res, []*circuitbreaker.Rule{})
		if again, _ := circuitbreaker.LoadRulesOfResource(res, []*circuitbreaker.Rule{}); again {
			bad = append(bad, "circuitbreaker")
		}
		_, _ = outlier.LoadRuleOfResource(res, nil)
		if again, _ := outlier.LoadRuleOfResource(res, nil); again {
			bad = append(bad, "outlier")
		}
		if len(bad) > 0 {
			t.Fatalf("LoadRulesOfResource(res, empty list) repeated right after the same call returned changed=true in %v "+
				"(the whole-set LoadRules(nil) of the same modules returns false when repeated); "+
				"the property demands that an identical reload reports 'unchanged'", bad)
		}
	})
}

// outlierProbe sends failing requests to node `addr` of `res` through the outlier slots and
// tells whether the node ends up in the filter list of a following request.
func outlierProbe(res, addr string) bool {
	sc := base.NewSlotChain()
	sc.AddStatPrepareSlot(stat.DefaultResourceNodePrepareSlot)
	sc.AddRuleCheckSlot(outlier.DefaultSlot)
	sc.AddStatSlot(stat.DefaultSlot)
	sc.AddStatSlot(outlier.DefaultMetricStatSlot)
	for i := 0; i < 5; i++ {
		e, b := Entry(res, WithSlotChain(sc))
		if b != nil {
			continue
		}
		TraceCallee(e, addr)
		TraceError(e, errors.New("boom"))
		e.Exit()
	}
	e, b := Entry(res, WithSlotChain(sc))
	if b != nil {
		return false
	}
	defer e.Exit()
	for _, n := range e.Context().FilterNodes() {
		if n == addr {
			return true
		}
	}
	return false
}

func outlierRule(res string, strategy circuitbreaker.Strategy) *outlier.Rule {
	return &outlier.Rule{
		Rule: &circuitbreaker.Rule{Resource: res, Strategy: strategy, RetryTimeoutMs: 60000,
			MinRequestAmount: 1, StatIntervalMs: 10000, Threshold: 1},
		MaxEjectionPercent: 1.0,
		RecycleIntervalS:   600,
	}
}

// Finding 3.
// outlier publishes (and reports) rules for which it can never build a node breaker: a per-resource
// load of a rule that names another resource, and a rule of a strategy without generator.
func TestAudit_C13_OutlierReportsRulesThatAreNeverEnforced(t *testing.T) {
	defer func() { _ = outlier.ClearRules() }()
	_ = outlier.ClearRules()

	// control: a rule loaded under its own name ejects the failing node
	if _, err := outlier.LoadRuleOfResource("audit-c13-ol-ok", outlierRule("audit-c13-ol-ok", circuitbreaker.ErrorCount)); err != nil {
		t.Fatal(err)
	}
	if !outlierProbe("audit-c13-ol-ok", "n0") {
		t.Fatalf("control failed: a correctly loaded outlier rule did not eject the failing node")
	}
	_ = outlier.ClearRules()

	// (a) per-resource load of a rule that names another resource
	if _, err := outlier.LoadRuleOfResource("audit-c13-ol-A", outlierRule("audit-c13-ol-B", circuitbreaker.ErrorCount)); err != nil {
		t.Fatal(err)
	}
	reported := outlier.GetRules()
	ejectedA := outlierProbe("audit-c13-ol-A", "n1")
	ejectedB := outlierProbe("audit-c13-ol-B", "n2")
	if len(reported) != 0 && !ejectedA && !ejectedB {
		t.Errorf("outlier.LoadRuleOfResource(A, {Resource: B}): GetRules reports %d rule (for resource %q), "+
			"but a node that keeps failing is ejected neither for A nor for B (it is, for a rule loaded under its own name); "+
			"the property demands that the rules returned by the getters are exactly those being enforced "+
			"(flow, isolation, hotspot and circuitbreaker ignore such a rule and do not report it)",
			len(reported), reported[0].Resource)
	}
	_ = outlier.ClearRules()

	// (b) whole-set load of a rule whose strategy has no generator
	if _, err := outlier.LoadRules([]*outlier.Rule{outlierRule("audit-c13-ol-C", circuitbreaker.Strategy(7))}); err != nil {
		t.Fatal(err)
	}
	reported = outlier.GetRules()
	ejectedC := outlierProbe("audit-c13-ol-C", "n3")
	if len(reported) != 0 && !ejectedC {
		t.Errorf("outlier.LoadRules([{Strategy: 7}]): GetRules reports %d rule, but no node breaker can exist for it and "+
			"a failing node is never ejected; the property demands that the reported rules are exactly those being enforced "+
			"(circuitbreaker does not report such a rule)", len(reported))
	}
}
