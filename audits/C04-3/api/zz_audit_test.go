package api

import (
	"testing"

	"github.com/alibaba/sentinel-golang/core/base"
	"github.com/alibaba/sentinel-golang/core/isolation"
	"github.com/alibaba/sentinel-golang/core/stat"
)

// auditEarlyStatSlot is a user statistic slot that sorts before the built-in stat.Slot (order 1000).
// base.StatSlot documents that a statistic slot "would not handle any panic, and pass up all panic to
// slot chain": a panic in it is an anticipated event that the chain recovers from.
type auditEarlyStatSlot struct {
	panicOnPass bool
}

func (s *auditEarlyStatSlot) Order() uint32 { return 500 }
func (s *auditEarlyStatSlot) OnEntryPassed(_ *base.EntryContext) {
	if s.panicOnPass {
		panic("audit: user statistic slot fails once")
	}
}
func (s *auditEarlyStatSlot) OnEntryBlocked(_ *base.EntryContext, _ *base.BlockError) {}
func (s *auditEarlyStatSlot) OnCompleted(_ *base.EntryContext)                       {}

// One request is passed by the chain's panic recovery while the statistic phase is under way, before
// stat.Slot.OnEntryPassed has counted it. Its Exit is nevertheless reported to stat.Slot.OnCompleted,
// which decrements the resource's in-flight gauge: the gauge is -1 with nothing in flight and stays one
// short for ever. From then on a rule of threshold N admits N+1 requests at a time.
func TestAuditIsolationGaugeDecrementedForEntryTheStatSlotNeverCounted(t *testing.T) {
	const res = "audit-c04-gauge-below-zero"
	const threshold = 2

	early := &auditEarlyStatSlot{}
	sc := BuildDefaultSlotChain()
	sc.AddStatSlot(early)

	if _, err := isolation.LoadRulesOfResource(res, []*isolation.Rule{
		{Resource: res, MetricType: isolation.Concurrency, Threshold: threshold},
	}); err != nil {
		t.Fatal(err)
	}
	defer func() { _ = isolation.ClearRulesOfResource(res) }()

	// the one request during which the user slot fails: it is admitted, runs and exits
	early.panicOnPass = true
	e, b := Entry(res, WithSlotChain(sc))
	early.panicOnPass = false
	if b != nil || e == nil {
		t.Fatalf("setup: the request passed by the chain's panic recovery should be admitted, got block %v", b)
	}
	e.Exit()

	if node := stat.GetResourceNode(res); node != nil {
		if c := node.CurrentConcurrency(); c != 0 {
			t.Errorf("nothing is in flight on %q, yet its in-flight gauge reads %d: the Exit of a request that "+
				"stat.Slot never counted was subtracted from it", res, c)
		}
	}

	// nothing is in flight now; from here on every slot behaves
	var inFlight []*base.SentinelEntry
	for i := 0; i < threshold+3; i++ {
		e, b := Entry(res, WithSlotChain(sc))
		if b != nil {
			break
		}
		inFlight = append(inFlight, e)
	}
	defer func() {
		for _, e := range inFlight {
			e.Exit()
		}
	}()
	if len(inFlight) > threshold {
		t.Fatalf("isolation rule of threshold %d on %q: %d requests of batch 1 were admitted and are in flight "+
			"at once (none has exited). The property demands that a request is admitted only if in-flight+batch <= %d, "+
			"so that in-flight entries never exceed %d", threshold, res, len(inFlight), threshold, threshold)
	}
}
