package iris

import (
	"errors"
	"net/http"
	"sync/atomic"
	"testing"

	sentinel "github.com/alibaba/sentinel-golang/api"
	"github.com/alibaba/sentinel-golang/core/circuitbreaker"
	"github.com/kataras/iris/v12"
	"github.com/kataras/iris/v12/httptest"
)

var errReviewNoSession = errors.New("no session")

// Review of 9cf2972: "only an error set after the entry was requested is traced" is decided by comparing
// the error in the request's slot after the chain with the one found before it. A handler that fails with the
// very error value an earlier handler had left there (a package level error such as ErrNoSession,
// context.DeadlineExceeded, io.EOF) is taken for not having failed: its entry completes without an error.
func TestReview_HandlerFailingWithTheErrorAnEarlierHandlerLeftIsTraced(t *testing.T) {
	if err := sentinel.InitDefault(); err != nil {
		t.Fatal(err)
	}
	mk := func(res string) *circuitbreaker.Rule {
		return &circuitbreaker.Rule{
			Resource:         res,
			Strategy:         circuitbreaker.ErrorCount,
			RetryTimeoutMs:   60000,
			MinRequestAmount: 1,
			StatIntervalMs:   10000,
			Threshold:        1,
		}
	}
	if _, err := circuitbreaker.LoadRules([]*circuitbreaker.Rule{mk("GET:/review-account"), mk("GET:/review-control")}); err != nil {
		t.Fatal(err)
	}
	defer circuitbreaker.ClearRules()

	var handled int32
	router := iris.New()
	// optional authentication in front of the adapter: no session is a soft failure, noted and passed on
	router.Use(func(c iris.Context) {
		c.SetErr(errReviewNoSession)
		c.Next()
	})
	router.Use(SentinelMiddleware())
	// the account page needs the session: it fails, with the same error value
	router.Get("/review-account", func(c iris.Context) {
		atomic.AddInt32(&handled, 1)
		c.SetErr(errReviewNoSession)
		c.StatusCode(http.StatusUnauthorized)
	})
	// control: the same, failing with an error value of its own
	router.Get("/review-control", func(c iris.Context) {
		c.SetErr(errors.New("no session"))
		c.StatusCode(http.StatusUnauthorized)
	})

	e := httptest.New(t, router)
	status := func(path string) int { return e.GET(path).Expect().Raw().StatusCode }

	// An error count breaker with threshold 1 is open after the first failed request: the second request
	// must not reach the handler.
	if first, second := status("/review-control"), status("/review-control"); first != http.StatusUnauthorized || second != http.StatusTooManyRequests {
		t.Fatalf("precondition: a failure with an error value of its own opens the breaker, got %d then %d", first, second)
	}

	first, second := status("/review-account"), status("/review-account")
	if first != http.StatusUnauthorized {
		t.Fatalf("first request: status %d", first)
	}
	if second != http.StatusTooManyRequests {
		t.Errorf("the handler failed %d times with ctx.SetErr(ErrNoSession) and no failure was traced on the entry "+
			"(second request: status %d, want %d from the open circuit breaker, as on the control route): an error the handler "+
			"sets is dropped when an earlier handler had left the same error value in the request",
			atomic.LoadInt32(&handled), second, http.StatusTooManyRequests)
	}
}
