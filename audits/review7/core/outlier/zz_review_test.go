package outlier

import (
	"runtime"
	"sync/atomic"
	"testing"
	"time"

	"github.com/alibaba/sentinel-golang/core/circuitbreaker"
)

// Review of 14210d0: circuitbreaker.BuildResourceCircuitBreaker (exported, and what this package builds and
// rebuilds its per-node breakers with) now records every kept breaker in a process-wide table of the circuit
// breaker rule manager when the rule came again as another object. Only the circuit breaker rule manager
// removes entries - for the breakers IT drops. The node breakers of this package leave by other doors
// (a recycled node, a cleared or replaced rule): their entries stay for the life of the process, and with
// them the breaker, its sliding window and the rule object.
func TestReview_BreakerOfARecycledNodeIsReleasedAfterARuleReload(t *testing.T) {
	clearData()
	defer clearData()

	mk := func(res string, maxEjection float64) *Rule {
		return &Rule{
			Rule: &circuitbreaker.Rule{
				Resource:         res,
				Strategy:         circuitbreaker.ErrorCount,
				RetryTimeoutMs:   3000,
				MinRequestAmount: 1,
				StatIntervalMs:   1000,
				Threshold:        1.0,
			},
			MaxEjectionPercent:  maxEjection,
			RecoveryIntervalMs:  2000,
			MaxRecoveryAttempts: 5,
		}
	}

	// A node of the resource is seen (its breaker is built), optionally the rule is pushed again by the
	// data source with another ejection percentage (a new object, the circuit breaking part unchanged: the
	// node's breaker is kept), then the node is recycled and finally the rule is cleared.
	scenario := func(res string, reload bool) *int32 {
		freed := new(int32)
		if _, err := LoadRuleOfResource(res, mk(res, 1.0)); err != nil {
			t.Fatal(err)
		}
		addNodeBreakerOfResource(res, "10.0.0.1:80") // what MetricStatSlot.OnCompleted does for a new address
		b := getNodeBreakersOfResource(res)["10.0.0.1:80"]
		if b == nil {
			t.Fatal("precondition: no breaker was built for the node")
		}
		runtime.SetFinalizer(b, func(_ circuitbreaker.CircuitBreaker) { atomic.StoreInt32(freed, 1) })
		if reload {
			if _, err := LoadRuleOfResource(res, mk(res, 0.5)); err != nil {
				t.Fatal(err)
			}
			if getNodeBreakersOfResource(res)["10.0.0.1:80"] != b {
				t.Fatal("precondition: the node's breaker should have been kept across the reload")
			}
		}
		deleteNodeBreakerOfResource(res, "10.0.0.1:80") // what the recycler does
		if err := ClearRuleOfResource(res); err != nil {
			t.Fatal(err)
		}
		return freed
	}

	control := scenario("review-leak-control", false)
	reloaded := scenario("review-leak-reloaded", true)

	for i := 0; i < 20 && (atomic.LoadInt32(control) == 0 || atomic.LoadInt32(reloaded) == 0); i++ {
		runtime.GC()
		time.Sleep(10 * time.Millisecond)
	}
	if atomic.LoadInt32(control) == 0 {
		t.Fatal("precondition: without a reload the breaker of a recycled node is garbage (the test's method works)")
	}
	if atomic.LoadInt32(reloaded) == 0 {
		t.Errorf("the breaker of a node that was recycled (and whose rule was cleared afterwards) is still reachable " +
			"after the rule had been loaded a second time while the node was known; it should be garbage like the " +
			"one of the control resource - something keeps every such breaker (and its statistic) for the life of the process")
	}
}
