package flow

import (
	"testing"
)

// Review of 7a9b864: the statistic a rule gets when it cannot reuse the resource's is now built as
// NewBucketLeapArray(2*sampleCount, 2*intervalInMs) - in 32 bits. For a StatIntervalInMs above 2^31 ms
// (24.9 days: a monthly quota) the doubled interval wraps, the read view no longer fits the array, the
// generator fails and the rule - valid, accepted and enforced before - is dropped without an error.
func TestReview_RuleWithAMonthlyWindowIsStillLoaded(t *testing.T) {
	const res = "review-monthly-quota"
	_ = ClearRules()
	defer func() { _ = ClearRules() }()

	const thirtyDaysMs = 30 * 24 * 3600 * 1000 // 2 592 000 000, fits uint32
	monthly := &Rule{
		Resource:               res,
		TokenCalculateStrategy: Direct,
		ControlBehavior:        Reject,
		Threshold:              1000000,
		StatIntervalInMs:       thirtyDaysMs,
	}
	if err := IsValidRule(monthly); err != nil {
		t.Fatalf("precondition: the rule is valid, got %v", err)
	}
	// control: the same rule with a window just below 2^31 ms
	below := *monthly
	below.StatIntervalInMs = 24 * 24 * 3600 * 1000 // 24 days
	if _, err := LoadRules([]*Rule{&below}); err != nil {
		t.Fatal(err)
	}
	if n := len(GetRulesOfResource(res)); n != 1 {
		t.Fatalf("precondition: a rule with a window of 24 days is loaded, got %d rules", n)
	}

	ok, err := LoadRules([]*Rule{monthly})
	if err != nil || !ok {
		t.Fatalf("LoadRules: %v %v", ok, err)
	}
	if n := len(GetRulesOfResource(res)); n != 1 {
		t.Errorf("a valid Reject rule with StatIntervalInMs=%d (30 days) was accepted by LoadRules (true, nil) "+
			"but %d rules are in force for the resource: the resource is not limited at all; "+
			"the rule should be loaded as it was before the standalone statistic was doubled (2*intervalInMs overflows uint32)",
			uint32(thirtyDaysMs), n)
	}
}
