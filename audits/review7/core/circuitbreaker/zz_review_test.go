package circuitbreaker

import (
	"errors"
	"testing"
)

type reviewListener struct {
	opened []Rule
}

func (l *reviewListener) OnTransformToClosed(prev State, rule Rule)   {}
func (l *reviewListener) OnTransformToHalfOpen(prev State, rule Rule) {}
func (l *reviewListener) OnTransformToOpen(prev State, rule Rule, snapshot interface{}) {
	l.opened = append(l.opened, rule)
}

// Review of 14210d0: the rule a kept breaker stands for is looked up in the rule manager's table by the
// getters and by the block error - the state change listeners are still handed the rule object the breaker
// was built with. After a load that renamed the rule they name a rule that is not loaded any more.
func TestReview_StateChangeListenerIsHandedTheRuleAsLastLoaded(t *testing.T) {
	const res = "review-listener-res"
	_ = ClearRules()
	ClearStateChangeListeners()
	defer func() {
		_ = ClearRules()
		ClearStateChangeListeners()
	}()

	mk := func(id string) *Rule {
		return &Rule{
			Id:               id,
			Resource:         res,
			Strategy:         ErrorCount,
			RetryTimeoutMs:   60000,
			MinRequestAmount: 1,
			StatIntervalMs:   10000,
			Threshold:        1,
		}
	}
	if _, err := LoadRules([]*Rule{mk("name-of-first-load")}); err != nil {
		t.Fatal(err)
	}
	first := getBreakersOfResource(res)
	if len(first) != 1 {
		t.Fatalf("want 1 breaker, got %d", len(first))
	}
	// the same rule comes again under another Id: the breaker is kept
	if _, err := LoadRules([]*Rule{mk("name-of-second-load")}); err != nil {
		t.Fatal(err)
	}
	second := getBreakersOfResource(res)
	if len(second) != 1 || second[0] != first[0] {
		t.Fatalf("precondition: the breaker should have been kept across the rename")
	}
	// control: the getter and the block error speak of the rule as it was last loaded
	if got := GetRulesOfResource(res); len(got) != 1 || got[0].Id != "name-of-second-load" {
		t.Fatalf("precondition: the getter should report the rule of the second load, got %+v", got)
	}

	l := &reviewListener{}
	RegisterStateChangeListeners(l)
	second[0].OnRequestComplete(1, errors.New("boom"))
	if second[0].CurrentState() != Open {
		t.Fatalf("precondition: the breaker should be open after one error, state=%v", second[0].CurrentState())
	}
	if got := ruleInForceOf(second[0]).Id; got != "name-of-second-load" {
		t.Fatalf("precondition: the block error would name %q", got)
	}
	if len(l.opened) != 1 {
		t.Fatalf("want 1 OnTransformToOpen call, got %d", len(l.opened))
	}
	if l.opened[0].Id != "name-of-second-load" {
		t.Errorf("the state change listener was told that rule %q opened; the rule in force (what GetRules reports and "+
			"what the block error of the very same breaker names) is %q - the Id the listener got belongs to no loaded rule",
			l.opened[0].Id, "name-of-second-load")
	}
}
