package file

import (
	"bufio"
	"bytes"
	"io"
	"io/ioutil"
	"os"
	"os/exec"
	"path/filepath"
	"strings"
	"syscall"
	"testing"
	"time"

	"github.com/alibaba/sentinel-golang/ext/datasource"
)

const reviewInnerEnv = "SENTINEL_REVIEW_INNER"

// Finding 3 (1b0b809): the file under the watched name is replaced by one the process cannot read (the case of
// the commit: written with a private mode), and it stays like that for longer than the retries last. The
// application closes the datasource meanwhile. Before the commit the watcher goroutine never slept on this
// path and Close() returned at once; now Close() waits for the retries, and when they fail the goroutine
// leaves without taking the value Close() is sending: Close() never returns.
//
// File modes do not bind root: run by root, the test runs itself again as "nobody".
func TestReviewCloseWhileWatchIsMovedToUnreadableFile(t *testing.T) {
	if os.Getenv(reviewInnerEnv) == "1" || os.Getuid() != 0 {
		reviewCloseWhileWatchIsMoved(t)
		return
	}
	exe, err := os.Executable()
	if err != nil {
		t.Skipf("cannot find the test binary: %v", err)
	}
	dir, err := ioutil.TempDir("", "review-file-ds")
	if err != nil {
		t.Fatal(err)
	}
	defer os.RemoveAll(dir)
	if err = os.Chmod(dir, 0755); err != nil {
		t.Fatal(err)
	}
	bin := filepath.Join(dir, "file.test")
	if err = reviewCopy(exe, bin); err != nil {
		t.Fatal(err)
	}
	cmd := exec.Command(bin, "-test.run", "^TestReviewCloseWhileWatchIsMovedToUnreadableFile$", "-test.v")
	cmd.Dir = dir
	cmd.Env = append(os.Environ(), reviewInnerEnv+"=1", "TMPDIR="+os.TempDir(), "HOME="+dir)
	cmd.SysProcAttr = &syscall.SysProcAttr{Credential: &syscall.Credential{Uid: 65534, Gid: 65534}}
	out, runErr := cmd.CombinedOutput()
	report := reviewTestLines(out)
	switch {
	case strings.Contains(report, "--- SKIP"):
		t.Skipf("run as nobody: %s", report)
	case runErr != nil:
		t.Errorf("run as nobody (%v): %s", runErr, report)
	default:
		t.Logf("run as nobody: %s", report)
	}
}

func reviewCloseWhileWatchIsMoved(t *testing.T) {
	dir, err := ioutil.TempDir("", "review-file-ds-rules")
	if err != nil {
		t.Fatal(err)
	}
	defer os.RemoveAll(dir)
	path := filepath.Join(dir, "rules.json")
	if err = ioutil.WriteFile(path, []byte("A"), 0644); err != nil {
		t.Fatal(err)
	}
	handler := datasource.NewDefaultPropertyHandler(
		func(src []byte) (interface{}, error) { return string(src), nil },
		func(interface{}) error { return nil })
	ds := NewFileDataSource(path, handler)
	if err = ds.Initialize(); err != nil {
		t.Fatal(err)
	}

	// the deployment replaces the file by one this process cannot read
	tmp := filepath.Join(dir, "rules.json.tmp")
	if err = ioutil.WriteFile(tmp, []byte("B"), 0600); err != nil {
		t.Fatal(err)
	}
	if err = os.Chmod(tmp, 0); err != nil {
		t.Fatal(err)
	}
	if f, openErr := os.Open(tmp); openErr == nil {
		f.Close()
		_ = ds.Close()
		t.Skip("file modes do not bind this process: the watch cannot be refused")
	}
	if err = os.Rename(tmp, path); err != nil {
		t.Fatal(err)
	}
	time.Sleep(1500 * time.Millisecond) // the datasource has seen the replacement and is trying to move its watch

	called := time.Now()
	returned := make(chan struct{})
	go func() {
		_ = ds.Close()
		close(returned)
	}()
	select {
	case <-returned:
		t.Logf("Close() returned after %v", time.Since(called))
	case <-time.After(12 * time.Second):
		t.Errorf("the watched file was replaced by an unreadable one and Close() was called 1.5s later, while the datasource "+
			"was trying to put its watch on the new file: Close() has not returned after %v (the retries last about 6s and "+
			"have ended, the watcher goroutine has left without receiving from closeChan); Close() should return, at the "+
			"latest when the retries end", time.Since(called).Round(time.Second))
	}
}

func reviewCopy(from, to string) error {
	in, err := os.Open(from)
	if err != nil {
		return err
	}
	defer in.Close()
	out, err := os.OpenFile(to, os.O_CREATE|os.O_WRONLY|os.O_TRUNC, 0755)
	if err != nil {
		return err
	}
	if _, err = io.Copy(out, in); err != nil {
		out.Close()
		return err
	}
	return out.Close()
}

// reviewTestLines keeps what the testing package printed and drops the log lines of the datasource.
func reviewTestLines(out []byte) string {
	var kept []string
	sc := bufio.NewScanner(bytes.NewReader(out))
	sc.Buffer(make([]byte, 1024*1024), 1024*1024)
	for sc.Scan() {
		line := sc.Text()
		trimmed := strings.TrimSpace(line)
		if strings.HasPrefix(trimmed, "zz_review_test.go") || strings.HasPrefix(trimmed, "--- ") ||
			strings.HasPrefix(trimmed, "panic:") || strings.HasPrefix(line, "FAIL") || strings.HasPrefix(line, "PASS") {
			kept = append(kept, trimmed)
		}
	}
	return strings.Join(kept, " | ")
}
