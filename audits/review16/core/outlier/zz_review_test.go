package outlier

import (
	"errors"
	"sync"
	"sync/atomic"
	"testing"
	"time"

	"github.com/alibaba/sentinel-golang/core/base"
	"github.com/alibaba/sentinel-golang/core/circuitbreaker"
)

// reviewChecker is a health checker as an application writes one: an object per configuration, its Check
// method handed to the rule as RecoveryCheckFunc.
type reviewChecker struct {
	calls   int32
	healthy int32
}

func (c *reviewChecker) Check(string) bool {
	atomic.AddInt32(&c.calls, 1)
	return atomic.LoadInt32(&c.healthy) == 1
}

func (c *reviewChecker) count() int32 { return atomic.LoadInt32(&c.calls) }

func reviewRule(resource string, active bool, intervalMs uint32, check RecoveryCheckFunc) *Rule {
	return &Rule{
		Rule: &circuitbreaker.Rule{
			Resource:         resource,
			Strategy:         circuitbreaker.ErrorCount,
			RetryTimeoutMs:   600000,
			MinRequestAmount: 1,
			StatIntervalMs:   10000,
			Threshold:        1.0,
		},
		EnableActiveRecovery: active,
		MaxEjectionPercent:   1.0,
		RecoveryIntervalMs:   intervalMs,
		RecycleIntervalS:     600,
		MaxRecoveryAttempts:  1,
		RecoveryCheckFunc:    check,
	}
}

func reviewCtx(resource, address string) *base.EntryContext {
	ctx := base.NewEmptyEntryContext()
	ctx.Resource = base.NewResourceWrapper(resource, base.ResTypeRPC, base.Outbound)
	ctx.RuleCheckResult = base.NewTokenResultPass()
	ctx.Input = &base.SentinelInput{BatchCount: 1}
	ctx.Data = map[interface{}]interface{}{"address": address}
	return ctx
}

// reviewEject lets requests to the node fail until the slot reports it as filtered, as the slot chain does.
func reviewEject(t *testing.T, resource, node string) {
	t.Helper()
	for i := 0; i < 3; i++ {
		ctx := reviewCtx(resource, node)
		ctx.SetError(errors.New("connection refused"))
		ctx.PutRt(1)
		DefaultMetricStatSlot.OnCompleted(ctx)
	}
	ctx := reviewCtx(resource, node)
	DefaultSlot.Check(ctx)
	if nodes := ctx.FilterNodes(); len(nodes) != 1 || nodes[0] != node {
		t.Fatalf("setup: node %s should be ejected after its failed requests, filter nodes are %v", node, nodes)
	}
}

func reviewWait(d time.Duration, cond func() bool) bool {
	deadline := time.Now().Add(d)
	for time.Now().Before(deadline) {
		if cond() {
			return true
		}
		time.Sleep(2 * time.Millisecond)
	}
	return cond()
}

// Finding 1 (48ccf8d): the rule is replaced by one that differs in its check function only - the method of
// another checker object. sameRecovery compares the functions by reflect.Value.Pointer(), the code pointer,
// which is the same for every method value of one method and for every closure of one function literal: the
// reconnection schedule is not voided and the checker of the rule that is gone goes on being called.
func TestReviewReplacedCheckFuncOfSameCodeIsStillCalled(t *testing.T) {
	const resource = "review.checkfunc"
	const node = "10.0.0.1:80"
	defer func() { _, _ = LoadRuleOfResource(resource, nil) }()

	oldChecker, newChecker := &reviewChecker{}, &reviewChecker{}
	if _, err := LoadRuleOfResource(resource, reviewRule(resource, true, 10, oldChecker.Check)); err != nil {
		t.Fatal(err)
	}
	reviewEject(t, resource, node)
	if !reviewWait(2*time.Second, func() bool { return oldChecker.count() >= 2 }) {
		t.Fatalf("setup: the active recovery of the ejected node did not start (%d checks)", oldChecker.count())
	}

	loaded, err := LoadRuleOfResource(resource, reviewRule(resource, true, 10, newChecker.Check))
	if err != nil || !loaded {
		t.Fatalf("setup: the rule with the new checker was not loaded: %v %v", loaded, err)
	}
	time.Sleep(100 * time.Millisecond) // a check that was running when the rule was replaced may finish
	before := oldChecker.count()
	time.Sleep(300 * time.Millisecond)
	after := oldChecker.count()
	if after != before {
		t.Errorf("the rule was replaced by one with another RecoveryCheckFunc (the Check method of another checker): "+
			"the check function of the rule that is gone was called %d more times in 300ms after the load (%d in all) "+
			"and the one of the rule in force %d times; the reconnection attempts of the replaced rule should be void",
			after-before, after, newChecker.count())
	}
}

// Finding 2 (3e863a3): requests go on while the rule with active recovery is replaced by one with passive
// recovery. The retryer tests "was the task queued under the rule in force" (retryTaskOfReplacedRule) and then,
// in separate critical sections, reads the rule again (getRetryerOfResource) and schedules (scheduleNodes). A
// load that publishes the passive rule and voids the schedule in between is not seen by the test, and the task
// starts the loop of active recovery under the passive rule after the schedule was voided: with that rule's
// check function and its recovery interval of zero, for ever. (The requests that queue tasks take retryerMutex
// in noteRetryTaskQueuedUnder, the mutex the retryer waits for between its test and its second read.)
func TestReviewQueuedTaskStartsRecoveryLoopUnderPassiveRule(t *testing.T) {
	const resource = "review.passive"
	const node = "10.0.0.2:80"
	defer func() { _, _ = LoadRuleOfResource(resource, nil) }()

	activeChecker, passiveChecker := &reviewChecker{}, &reviewChecker{}
	activeCheck := func(a string) bool { return activeChecker.Check(a) }
	// (the passive rule carries a check function of its own only to make its calls visible; without one the
	// loop dials the node with isPortOpen)
	passiveCheck := func(a string) bool { return passiveChecker.Check(a) }
	if _, err := LoadRuleOfResource(resource, reviewRule(resource, true, 1, activeCheck)); err != nil {
		t.Fatal(err)
	}
	reviewEject(t, resource, node)

	// the traffic of the resource: every request finds the node ejected
	var stop int32
	var wg sync.WaitGroup
	for i := 0; i < 8; i++ {
		wg.Add(1)
		go func() {
			defer wg.Done()
			for atomic.LoadInt32(&stop) == 0 {
				DefaultSlot.Check(reviewCtx(resource, node))
			}
		}()
	}
	stopTraffic := func() { atomic.StoreInt32(&stop, 1); wg.Wait() }
	defer stopTraffic()

	// The operator switches the resource from active to passive recovery. (Repeated, since it takes the
	// load to land between two steps of the retryer; here about one switch in ten does.)
	deadline := time.Now().Add(20 * time.Second)
	switches := 0
	for time.Now().Before(deadline) {
		switches++
		if _, err := LoadRuleOfResource(resource, reviewRule(resource, true, 1, activeCheck)); err != nil {
			t.Fatal(err)
		}
		time.Sleep(200 * time.Microsecond)
		if _, err := LoadRuleOfResource(resource, reviewRule(resource, false, 0, passiveCheck)); err != nil {
			t.Fatal(err)
		}
		// the passive rule is in force: requests queue nothing any more; let the retryer empty its queue
		for len(retryerCh) > 0 {
			time.Sleep(50 * time.Microsecond)
		}
		time.Sleep(2 * time.Millisecond)
		if passiveChecker.count() == 0 {
			continue
		}
		stopTraffic()
		before := passiveChecker.count()
		time.Sleep(100 * time.Millisecond)
		after := passiveChecker.count()
		retryerMutex.Lock()
		r := retryers[resource]
		retryerMutex.Unlock()
		t.Fatalf("switch %d from active to passive recovery: after the load had returned and the retryer had emptied its "+
			"queue, a loop of active recovery runs under the rule with passive recovery: its check function was called "+
			"%d times, %d of them in 100ms without any request (a busy loop: RecoveryIntervalMs is 0), %d node(s) on "+
			"the reconnection schedule; a task queued under the replaced rule should be dropped and nothing be scheduled",
			switches, after, after-before, r.length())
	}
	t.Logf("no loop under the passive rule in %d switches", switches)
}
