package hotspot

import (
	"testing"
	"time"

	"github.com/alibaba/sentinel-golang/core/base"
	"github.com/alibaba/sentinel-golang/util"
)

// C13 audit 7, finding 2.
//
// A hot-parameter QPS / Throttling rule keeps, per parameter value, the time at which the last admitted
// request passes - for a request that was queued that time lies in the FUTURE. A modified rule (same
// resource, parameter, duration and control behaviour) takes the counters over as they are
// (metricForBudgetOf only adjusts QPS / Reject): the queue that the REPLACED rule built up goes on
// deciding. A value for which the old rule (1 per 10 s, queue up to 60 s) had queued three requests
// is rejected by the new rule (1000 per 10 s, no queueing) for the next 30 seconds.
func TestAuditThrottlingQueueOfReplacedRuleKeepsRejecting(t *testing.T) {
	clock := util.NewMockClock()
	util.SetClock(clock)
	defer util.SetClock(util.NewRealClock())
	_ = ClearRules()
	defer func() { _ = ClearRules() }()

	const res = "audit7-c13-hotspot-throttling"
	oldRule := &Rule{ID: "r", Resource: res, MetricType: QPS, ControlBehavior: Throttling, ParamIndex: 0,
		Threshold: 1, DurationInSec: 10, MaxQueueingTimeMs: 60000}
	if _, err := LoadRules([]*Rule{oldRule}); err != nil {
		t.Fatal(err)
	}
	tcs := getTrafficControllersFor(res)
	if len(tcs) != 1 {
		t.Fatalf("expected one controller, got %d", len(tcs))
	}
	// Four concurrent requests for the value "v" (the controller is asked directly: the slot would put each
	// of these goroutines to sleep for the wait it is told): the first passes, three are queued to pass
	// 10, 20 and 30 seconds from now.
	for i := 0; i < 4; i++ {
		if r := tcs[0].PerformChecking("v", 1); r != nil && r.IsBlocked() {
			t.Fatalf("setup: request %d was rejected by the old rule", i)
		}
	}

	newRule := &Rule{ID: "r", Resource: res, MetricType: QPS, ControlBehavior: Throttling, ParamIndex: 0,
		Threshold: 1000, DurationInSec: 10, MaxQueueingTimeMs: 0}
	changed, err := LoadRules([]*Rule{newRule})
	if err != nil || !changed {
		t.Fatalf("reload: changed=%v err=%v", changed, err)
	}
	got := GetRulesOfResource(res)
	if len(got) != 1 || got[0].Threshold != 1000 || got[0].MaxQueueingTimeMs != 0 {
		t.Fatalf("getter does not report the new rule: %+v", got)
	}

	// One second, and then 20 seconds, after the reload: the rule in force admits one request per 10 ms.
	elapsed := time.Duration(0)
	for _, step := range []time.Duration{time.Second, 19 * time.Second} {
		clock.Sleep(step)
		elapsed += step
		at := elapsed
		ctx := base.NewEmptyEntryContext()
		ctx.Resource = base.NewResourceWrapper(res, base.ResTypeCommon, base.Inbound)
		ctx.Input = &base.SentinelInput{BatchCount: 1, Args: []interface{}{"v"}}
		ctx.RuleCheckResult = base.NewTokenResultPass()
		if r := DefaultSlot.Check(ctx); r != nil && r.IsBlocked() {
			t.Fatalf("after the reload (+%v on the clock) a request for value \"v\" is rejected: %s.\n"+
				"The only rule in force (and the only one reported: %+v) allows 1000 requests per 10 s, i.e. one every 10 ms, "+
				"and nothing has been admitted under it yet. The rejection comes from the queue of the REPLACED rule "+
				"(1 per 10 s, three requests queued up to 30 s ahead), whose pass times the new controller took over. "+
				"The property demands that previously loaded rules of the resource are gone and that the rules that "+
				"govern traffic are exactly those of the most recent load.",
				at, r.BlockError().BlockMsg(), got[0])
		}
	}
}

// C13 audit 7, finding 3 (weaker).
//
// Rule.ControlBehavior "only takes effect when MetricType is QPS" (rule.go; IsStatReusable in this tree says
// the same). A CONCURRENCY rule whose ControlBehavior holds a value other than Reject / Throttling passes
// IsValidRule, and both built-in controllers would check it the very same way
// (performCheckingForConcurrencyMetric) - but the rule manager picks the controller generator by
// ControlBehavior before it looks at the metric type, finds none and drops the rule: a rule that the
// module's validity check accepts is neither enforced nor reported.
func TestAuditValidConcurrencyRuleDroppedForItsUnusedControlBehavior(t *testing.T) {
	_ = ClearRules()
	defer func() { _ = ClearRules() }()
	const res = "audit7-c13-hotspot-concurrency"
	rule := &Rule{Resource: res, MetricType: Concurrency, ControlBehavior: ControlBehavior(2), ParamIndex: 0, Threshold: 0}
	if err := IsValidRule(rule); err != nil {
		t.Skipf("the module's validity check refuses the rule (%v): nothing to show", err)
	}
	changed, err := LoadRules([]*Rule{rule})
	if err != nil || !changed {
		t.Fatalf("load: changed=%v err=%v", changed, err)
	}
	reported := GetRulesOfResource(res)
	ctx := base.NewEmptyEntryContext()
	ctx.Resource = base.NewResourceWrapper(res, base.ResTypeCommon, base.Inbound)
	ctx.Input = &base.SentinelInput{BatchCount: 1, Args: []interface{}{"v"}}
	ctx.RuleCheckResult = base.NewTokenResultPass()
	r := DefaultSlot.Check(ctx)
	blocked := r != nil && r.IsBlocked()
	if len(reported) != 1 || !blocked {
		t.Fatalf("LoadRules([{MetricType: Concurrency, Threshold: 0, ControlBehavior: 2}]) returned changed=true, "+
			"IsValidRule accepts the rule, yet it is not in force: reported rules of the resource = %d (want 1), request for "+
			"value \"v\" blocked = %v (want true: a concurrency threshold of 0 admits nothing). ControlBehavior is documented "+
			"to take effect for QPS rules only; the property demands that the rules that govern traffic are exactly the valid "+
			"rules of the most recent load.", len(reported), blocked)
	}
}
