package outlier

import (
	"errors"
	"sync/atomic"
	"testing"
	"time"

	"github.com/alibaba/sentinel-golang/core/base"
	"github.com/alibaba/sentinel-golang/core/circuitbreaker"
)

func auditCheck(res string) *base.TokenResult {
	ctx := base.NewEmptyEntryContext()
	ctx.Resource = base.NewResourceWrapper(res, base.ResTypeRPC, base.Outbound)
	ctx.Input = &base.SentinelInput{BatchCount: 1}
	ctx.RuleCheckResult = base.NewTokenResultPass()
	// (the entry of the request, never exited here: the probe it stands for is still under way)
	ctx.SetEntry(base.NewSentinelEntry(ctx, ctx.Resource, nil))
	return DefaultSlot.Check(ctx)
}

func auditComplete(res, address string, err error) {
	ctx := base.NewEmptyEntryContext()
	ctx.Resource = base.NewResourceWrapper(res, base.ResTypeRPC, base.Outbound)
	ctx.Input = &base.SentinelInput{BatchCount: 1}
	ctx.RuleCheckResult = base.NewTokenResultPass()
	ctx.Data = map[interface{}]interface{}{"address": address}
	if err != nil {
		ctx.SetError(err)
	}
	DefaultMetricStatSlot.OnCompleted(ctx)
}

func auditStateOf(res, address string) (circuitbreaker.State, bool) {
	b, ok := getNodeBreakersOfResource(res)[address]
	if !ok {
		return 0, false
	}
	return b.CurrentState(), true
}

// C13 audit 7, finding 1.
//
// The active-recovery loop (retryer) that was started for an ejected node under a rule with
// EnableActiveRecovery goes on for ever once its check function reports "unhealthy": it re-arms itself in
// onDisconnected and never asks whether the rule it was started under is still the rule of the resource.
// After the rule has been replaced by a PASSIVE rule (EnableActiveRecovery false, no check function), the
// loop still calls the check function of the replaced rule and feeds its verdict as a successful
// completion into the node breaker of the rule in force: a node that the new rule holds half-open,
// waiting for the outcome of a real probe request, is closed (readmitted) by the replaced rule.
func TestAuditActiveRecoveryOfReplacedRuleClosesBreakerOfPassiveRule(t *testing.T) {
	const res = "audit7-c13-outlier-retryer"
	const node = "10.0.0.1:80"
	_ = ClearRules()
	defer func() { _ = ClearRules() }()

	var healthy, calls int32
	oldCheck := func(address string) bool {
		atomic.AddInt32(&calls, 1)
		return atomic.LoadInt32(&healthy) == 1
	}
	// however this test ends, the loop is told "healthy" so that it stops re-arming itself
	defer atomic.StoreInt32(&healthy, 1)

	oldRule := &Rule{
		Rule: &circuitbreaker.Rule{Resource: res, Strategy: circuitbreaker.ErrorCount, RetryTimeoutMs: 60000,
			MinRequestAmount: 1, StatIntervalMs: 10000, Threshold: 1},
		EnableActiveRecovery: true, MaxEjectionPercent: 1, RecoveryIntervalMs: 30, MaxRecoveryAttempts: 1,
		RecoveryCheckFunc: oldCheck,
	}
	if _, err := LoadRules([]*Rule{oldRule}); err != nil {
		t.Fatal(err)
	}
	// the node fails once: ejected under the old rule; the next request finds it ejected and starts the
	// active recovery of the old rule
	auditComplete(res, node, errors.New("boom"))
	if st, ok := auditStateOf(res, node); !ok || st != circuitbreaker.Open {
		t.Fatalf("setup: node breaker under the old rule: state=%v present=%v, expected Open", st, ok)
	}
	auditCheck(res)
	deadline := time.Now().Add(3 * time.Second)
	for atomic.LoadInt32(&calls) < 2 && time.Now().Before(deadline) {
		time.Sleep(10 * time.Millisecond)
	}
	if atomic.LoadInt32(&calls) < 2 {
		t.Fatalf("setup: the active recovery of the old rule did not start (calls=%d)", calls)
	}

	// The rule is replaced by a passive one: no active recovery, no check function, other breaker parameters.
	newRule := &Rule{
		Rule: &circuitbreaker.Rule{Resource: res, Strategy: circuitbreaker.ErrorCount, RetryTimeoutMs: 100,
			MinRequestAmount: 1, StatIntervalMs: 10000, Threshold: 1},
		EnableActiveRecovery: false, MaxEjectionPercent: 1,
	}
	changed, err := LoadRules([]*Rule{newRule})
	callsAtReload := atomic.LoadInt32(&calls)
	if err != nil || !changed {
		t.Fatalf("reload: changed=%v err=%v", changed, err)
	}
	if got := GetRules(); len(got) != 1 || got[0].EnableActiveRecovery || got[0].RecoveryCheckFunc != nil || got[0].RetryTimeoutMs != 100 {
		t.Fatalf("getter does not report the new rule: %+v", got)
	}
	// Under the new rule the node fails again: ejected; after the retry timeout the next request finds it
	// half-open and is told to probe it (passive detection). That probe is still under way: NO request
	// completes from here on.
	auditComplete(res, node, errors.New("boom"))
	if st, ok := auditStateOf(res, node); !ok || st != circuitbreaker.Open {
		t.Fatalf("setup: node breaker under the new rule: state=%v present=%v, expected Open", st, ok)
	}
	time.Sleep(150 * time.Millisecond)
	r := auditCheck(res)
	if st, _ := auditStateOf(res, node); st != circuitbreaker.HalfOpen {
		t.Fatalf("setup: node breaker under the new rule: state=%v, expected HalfOpen (halfOpenNodes=%v)", st, r.HalfOpenNodes())
	}

	// the check function of the REPLACED rule now says "healthy"
	atomic.StoreInt32(&healthy, 1)
	deadline = time.Now().Add(2 * time.Second)
	for time.Now().Before(deadline) {
		if st, ok := auditStateOf(res, node); ok && st == circuitbreaker.Closed {
			t.Fatalf("the node breaker of the rule in force went HalfOpen -> Closed although no request completed "+
				"and the rule in force (the only one reported: EnableActiveRecovery=false, RecoveryCheckFunc=nil) has no "+
				"active recovery. The RecoveryCheckFunc of the REPLACED rule was called %d more times after the reload had returned "+
				"and its verdict closed the breaker (Retryer.onConnected -> OnRequestComplete). The property demands "+
				"that previously loaded rules of the resource are gone and never influence a decision.",
				atomic.LoadInt32(&calls)-callsAtReload)
		}
		time.Sleep(10 * time.Millisecond)
	}
}
