package system_test

import (
	"sync"
	"testing"
	"time"

	sentinel "github.com/alibaba/sentinel-golang/api"
	"github.com/alibaba/sentinel-golang/core/base"
	"github.com/alibaba/sentinel-golang/core/stat"
	"github.com/alibaba/sentinel-golang/core/system"
	"github.com/alibaba/sentinel-golang/core/system_metric"
	"github.com/alibaba/sentinel-golang/util"
)

// auditClock is a clock that moves only when the test moves it.
type auditClock struct {
	mu sync.Mutex
	ms uint64
}

func (c *auditClock) Now() time.Time {
	return time.Unix(0, int64(c.CurrentTimeMillis())*int64(time.Millisecond))
}
func (c *auditClock) Sleep(d time.Duration) { c.add(uint64(d / time.Millisecond)) }
func (c *auditClock) CurrentTimeMillis() uint64 {
	c.mu.Lock()
	defer c.mu.Unlock()
	return c.ms
}
func (c *auditClock) CurrentTimeNano() uint64 { return c.CurrentTimeMillis() * 1000000 }
func (c *auditClock) add(ms uint64) {
	c.mu.Lock()
	c.ms += ms
	c.mu.Unlock()
}

// newAuditClock starts at the beginning of a 500ms bucket that lies ahead of the real time (the inbound
// node was created with the real clock; the mock clock must not be behind it).
func newAuditClock() *auditClock {
	now := uint64(time.Now().UnixNano()/int64(time.Millisecond)) + 30000
	return &auditClock{ms: now - now%1000}
}

// Finding 1: a BBR load rule, load far above the trigger, one inbound request in flight, estimated
// capacity (peak completion rate x minimum response time) far below one request: the in-flight count
// exceeds the capacity, the rule is violated, the next inbound request must be rejected. It is admitted:
// checkBbrSimple only looks at the capacity when more than one request is in flight.
func TestAuditBBROneInFlightAboveCapacityIsAdmitted(t *testing.T) {
	clk := newAuditClock()
	util.SetClock(clk)
	defer util.SetClock(util.NewRealClock())
	defer system_metric.SetSystemLoad(system_metric.NotRetrievedLoadValue)
	defer func() { _ = system.ClearRules() }()

	if _, err := system.LoadRules([]*system.Rule{
		{MetricType: system.Load, TriggerCount: 1.0, Strategy: system.BBR},
	}); err != nil {
		t.Fatal(err)
	}
	system_metric.SetSystemLoad(8.0) // far above the trigger 1.0

	inbound := sentinel.WithTrafficType(base.Inbound)

	// history: one inbound request that took 4ms. Peak completion rate: 1 per 500ms bucket = 2/s,
	// minimum response time 4ms, capacity = 2/s * 0.004s = 0.008 requests.
	e0, b := sentinel.Entry("audit-bbr", inbound)
	if b != nil {
		t.Fatalf("setup: first request blocked: %v", b)
	}
	clk.add(4)
	e0.Exit()
	clk.add(10)

	in := stat.InboundNode()
	capacity := in.GetMaxAvg(base.MetricEventComplete) * in.MinRT() / 1000.0
	if capacity >= 1 || in.CurrentConcurrency() != 0 {
		t.Fatalf("setup: capacity=%v in-flight=%d", capacity, in.CurrentConcurrency())
	}

	// request A: nothing in flight (0 does not exceed the capacity), it passes and stays in flight
	eA, b := sentinel.Entry("audit-bbr", inbound)
	if b != nil {
		t.Fatalf("setup: request A blocked with nothing in flight: %v", b)
	}
	defer eA.Exit()
	clk.add(1)

	// request B: load 8 > 1, in flight 1 > capacity 0.008: the rule is violated
	inFlight := in.CurrentConcurrency()
	eB, bB := sentinel.Entry("audit-bbr", inbound)
	if eB != nil {
		defer eB.Exit()
	}
	// request C shows that the rule is alive and the capacity really is that small: with two in flight
	// the library does reject
	_, bC := sentinel.Entry("audit-bbr", inbound)

	if bB == nil {
		t.Errorf("BBR load rule (trigger 1.0), load 8.0, inbound in flight = %d, estimated capacity = peak completion rate %.1f/s x min RT %.0fms = %.3f: "+
			"the in-flight count exceeds the capacity and the load is above the trigger, so the rule is violated and the property demands a system block; "+
			"the request was admitted (the next one, with 2 in flight, blocked=%v)",
			inFlight, in.GetMaxAvg(base.MetricEventComplete), in.MinRT(), capacity, bC != nil)
	} else if bB.BlockType() != base.BlockTypeSystemFlow {
		t.Errorf("blocked, but not by the system stage: %v", bB)
	}
}

// gateSlot is a rule check slot that runs after the system slot. The first request that reaches it is held
// until release is closed: it stands for any delay between the system check and the statistic slot
// (pre-emption, or the sleep of a throttling flow rule, which happens at exactly this place).
type gateSlot struct {
	once    sync.Once
	reached chan struct{}
	release chan struct{}
}

func (g *gateSlot) Order() uint32 { return 2000 }
func (g *gateSlot) Check(ctx *base.EntryContext) *base.TokenResult {
	first := false
	g.once.Do(func() { first = true })
	if first {
		close(g.reached)
		<-g.release
	}
	return nil
}

// Finding 2: a request that has passed the system check but has not reached the statistic slot yet is
// invisible to the check of the next request. With a Concurrency rule of trigger 1, a second inbound
// request that arrives in that gap is admitted, and two inbound requests are in flight although the
// in-flight count had reached the trigger when the second was checked.
func TestAuditConcurrencyRuleOverAdmitsBetweenCheckAndStat(t *testing.T) {
	defer func() { _ = system.ClearRules() }()
	if _, err := system.LoadRules([]*system.Rule{
		{MetricType: system.Concurrency, TriggerCount: 1, Strategy: system.NoAdaptive},
	}); err != nil {
		t.Fatal(err)
	}
	gate := &gateSlot{reached: make(chan struct{}), release: make(chan struct{})}
	sc := base.NewSlotChain()
	sc.AddStatPrepareSlot(stat.DefaultResourceNodePrepareSlot)
	sc.AddRuleCheckSlot(system.DefaultAdaptiveSlot)
	sc.AddRuleCheckSlot(gate)
	sc.AddStatSlot(stat.DefaultSlot)

	before := stat.InboundNode().CurrentConcurrency()
	if before != 0 {
		t.Fatalf("setup: inbound in-flight count is %d", before)
	}

	type res struct {
		e *base.SentinelEntry
		b *base.BlockError
	}
	first := make(chan res, 1)
	go func() {
		e, b := sentinel.Entry("audit-gap", sentinel.WithTrafficType(base.Inbound), sentinel.WithSlotChain(sc))
		first <- res{e, b}
	}()
	<-gate.reached // the first request has been admitted by the system stage

	// the second request: one inbound request has been admitted and has not completed
	e2, b2 := sentinel.Entry("audit-gap", sentinel.WithTrafficType(base.Inbound), sentinel.WithSlotChain(sc))
	close(gate.release)
	r1 := <-first
	inFlight := stat.InboundNode().CurrentConcurrency()
	if r1.e != nil {
		defer r1.e.Exit()
	}
	if e2 != nil {
		defer e2.Exit()
	}
	if r1.b != nil {
		t.Fatalf("setup: first request blocked: %v", r1.b)
	}
	if b2 == nil {
		t.Errorf("Concurrency rule with trigger 1: a second inbound request was admitted while the first was admitted and not completed; "+
			"the inbound in-flight count is now %d. The property demands a system block once the inbound in-flight count has reached its trigger (1); "+
			"the first request was not counted yet when the second was checked (check and count are separate steps)", inFlight)
	}
}
