package base

import (
	"math"
	"strconv"
	"testing"
	"time"

	"github.com/alibaba/sentinel-golang/core/base"
	"github.com/alibaba/sentinel-golang/logging"
)

// Finding 1: LeapArray.calculateTimeIdx converts the bucket number (now / bucketLength) to a
// signed int BEFORE taking the modulo. As soon as the bucket number does not fit into an int
// the index is negative; AtomicBucketWrapArray.get() then returns nil, compareAndSet() returns
// false, and the "spin to get the current BucketWrap" loop of currentBucketOfTime never ends.
//
// math.MaxInt is used so that the same test hits the defect on 64-bit (timestamp >= 2^63,
// only reachable through the exported CountWithTime(now)/Values(now) or a custom util.Clock)
// and on 32-bit platforms (where every real timestamp since 2004 does it for 500ms buckets).
func TestAudit_BucketNumberBeyondIntNeverTerminates(t *testing.T) {
	// the spinning goroutines log an error on every iteration; keep the output readable
	// (not restored: the leaked goroutines keep spinning until the test binary exits)
	logging.ResetGlobalLoggerLevel(logging.ErrorLevel + 1)

	// two buckets of 1ms each; bucket number = now, odd => index must be 1
	bla := NewBucketLeapArray(2, 2)
	now := uint64(math.MaxInt) + 2

	wantIdx := int(now / uint64(bla.BucketLengthInMs()) % uint64(bla.SampleCount()))
	if gotIdx := bla.data.calculateTimeIdx(now); gotIdx != wantIdx {
		t.Errorf("calculateTimeIdx(%d) = %d, but the timestamp selects bucket %d of %d "+
			"(the constructor NewAtomicBucketWrapArrayWithTime computes the index in uint64 and gets %d)",
			now, gotIdx, wantIdx, bla.SampleCount(), wantIdx)
	}

	recorded := make(chan struct{})
	go func() {
		bla.addCountWithTime(now, base.MetricEventPass, 1)
		close(recorded)
	}()
	select {
	case <-recorded:
	case <-time.After(2 * time.Second):
		t.Errorf("recorder addCountWithTime(now=%d) is still spinning in LeapArray.currentBucketOfTime after 2s "+
			"(single goroutine, no contention); the property demands that every recorder terminates", now)
	}

	read := make(chan int64, 1)
	go func() {
		read <- bla.CountWithTime(now, base.MetricEventPass)
	}()
	select {
	case <-read:
	case <-time.After(2 * time.Second):
		t.Errorf("reader CountWithTime(now=%d) is still spinning in LeapArray.currentBucketOfTime after 2s; "+
			"the property demands that every reader terminates", now)
	}
}

// The same defect with the real clock and the default global statistic (20 buckets / 10s):
// only observable where int is 32 bits wide (GOARCH=386, arm, mips, ...), skipped elsewhere.
//
//	GOARCH=386 CGO_ENABLED=0 go test -vet=off -count=1 -run Audit ./core/stat/base/
func TestAudit_RealClockOn32BitNeverTerminates(t *testing.T) {
	if strconv.IntSize != 32 {
		t.Skip("needs a 32-bit int; run with GOARCH=386")
	}
	// (not restored: the leaked goroutines keep spinning until the test binary exits)
	logging.ResetGlobalLoggerLevel(logging.ErrorLevel + 1)

	bla := NewBucketLeapArray(20, 10000)
	done := make(chan int64, 1)
	go func() {
		bla.AddCount(base.MetricEventPass, 1)
		done <- bla.Count(base.MetricEventPass)
	}()
	select {
	case got := <-done:
		if got != 1 {
			t.Errorf("recorded 1 pass with the real clock, Count reports %d; the property demands exactly the recorded total", got)
		}
	case <-time.After(2 * time.Second):
		t.Errorf("AddCount/Count with the real clock did not return within 2s on a 32-bit platform; " +
			"the property demands that every recorder and reader terminates")
	}
}
