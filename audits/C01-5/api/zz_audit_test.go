package api

import (
	"sync/atomic"
	"testing"
	"time"

	"github.com/alibaba/sentinel-golang/core/base"
	"github.com/alibaba/sentinel-golang/core/hotspot"
	"github.com/alibaba/sentinel-golang/core/stat"
	"github.com/alibaba/sentinel-golang/util"
)

// zzAuditClock is a virtual clock: Sleep advances it and then runs the hook once (what happens in the
// process while a throttled request is waiting).
type zzAuditClock struct {
	ms      int64
	onSleep func()
}

func (c *zzAuditClock) Now() time.Time {
	return time.Unix(0, atomic.LoadInt64(&c.ms)*int64(time.Millisecond))
}
func (c *zzAuditClock) CurrentTimeMillis() uint64 { return uint64(atomic.LoadInt64(&c.ms)) }
func (c *zzAuditClock) CurrentTimeNano() uint64   { return uint64(atomic.LoadInt64(&c.ms)) * 1e6 }
func (c *zzAuditClock) Sleep(d time.Duration) {
	atomic.AddInt64(&c.ms, int64(d/time.Millisecond))
	if h := c.onSleep; h != nil {
		c.onSleep = nil
		h()
	}
}

// A request waits in the hotspot slot (throttling rule on its 2nd argument). While it waits, the rules are
// reloaded: a concurrency rule on the 1st argument is added, and the 1st argument of the waiting request is a
// slice (a value that makes a hotspot check panic: it cannot be a map key). The check of the waiting request goes
// on over the rule list it read before the wait, so it does not panic and the request is admitted normally:
// stat.Slot counts it as passed. The built-in hotspot.ConcurrencyStatSlot (a statistic slot of the default chain)
// reads the rules again, finds the new rule, and panics on the slice. SlotChain.Entry recovers that panic and
// writes it into the entry as ITS error (ctx.SetError). The caller exits the entry without any error, and the
// completion is recorded with an error the entry never had.
func TestAuditInternalPanicOfStatPhaseBecomesTheErrorOfTheCompletion(t *testing.T) {
	// not earlier than process start (the inbound node exists since then)
	clk := &zzAuditClock{ms: time.Now().UnixNano()/int64(time.Millisecond) + 5000}
	util.SetClock(clk)
	defer util.SetClock(util.NewRealClock())
	defer hotspot.ClearRules()

	const res = "zz-audit-stat-phase-panic"
	throttle := &hotspot.Rule{Resource: res, MetricType: hotspot.QPS, ControlBehavior: hotspot.Throttling,
		ParamIndex: 1, Threshold: 1, DurationInSec: 1, MaxQueueingTimeMs: 5000, ParamsMaxCapacity: 100}
	if _, err := hotspot.LoadRules([]*hotspot.Rule{throttle}); err != nil {
		t.Fatal(err)
	}

	args := []interface{}{[]int{1, 2}, "user-7"}

	// first request: passes at once, completes without error
	e1, b1 := Entry(res, WithTrafficType(base.Inbound), WithArgs(args...))
	if b1 != nil {
		t.Fatalf("setup: first request blocked: %v", b1)
	}
	e1.Exit()

	node := stat.GetResourceNode(res)
	if node == nil {
		t.Fatal("setup: no node")
	}
	// totals over the last 10s (the default view of a node covers 1s only, and the second request waits 1s)
	sumOf := func(n *stat.ResourceNode, ev base.MetricEvent) int64 {
		rs, err := n.GenerateReadStat(1, 10000)
		if err != nil {
			t.Fatal(err)
		}
		return rs.GetSum(ev)
	}
	if got := sumOf(node, base.MetricEventError); got != 0 {
		t.Fatalf("setup: %d errors after an error-free request", got)
	}
	inboundErrBefore := sumOf(stat.InboundNode(), base.MetricEventError)

	// second request: has to wait about 1s; the rules are reloaded during the wait
	reloaded := false
	clk.onSleep = func() {
		reloaded = true
		concurrency := &hotspot.Rule{Resource: res, MetricType: hotspot.Concurrency, ParamIndex: 0, Threshold: 100, ParamsMaxCapacity: 100}
		if _, err := hotspot.LoadRules([]*hotspot.Rule{throttle, concurrency}); err != nil {
			t.Errorf("reload: %v", err)
		}
	}
	e2, b2 := Entry(res, WithTrafficType(base.Inbound), WithArgs(args...))
	if b2 != nil {
		t.Fatalf("setup: second request blocked: %v", b2)
	}
	if !reloaded {
		t.Fatal("setup: the second request did not wait, the rules were not reloaded")
	}
	if e2.Context().IsPassedByInternalError() {
		t.Fatal("setup: the rule check itself panicked (that is the known case, not this one)")
	}
	if got := sumOf(node, base.MetricEventPass); got != 2 {
		t.Fatalf("setup: %d passes recorded, want 2", got)
	}
	// 300 ms of work, no error: neither TraceError nor Exit(WithError)
	atomic.AddInt64(&clk.ms, 300)
	e2.Exit()

	if c := node.CurrentConcurrency(); c != 0 {
		t.Errorf("concurrency %d with no entry in flight", c)
	}
	if got := sumOf(node, base.MetricEventComplete); got != 2 {
		t.Fatalf("setup: %d completions recorded, want 2", got)
	}
	gotErr := sumOf(node, base.MetricEventError)
	gotInboundErr := sumOf(stat.InboundNode(), base.MetricEventError) - inboundErrBefore
	if gotErr != 0 || gotInboundErr > 0 {
		t.Errorf("the entry was admitted normally (counted as passed) and exited by its caller WITHOUT any error, "+
			"but its completion is recorded with an error: error count of the resource = %d, of the inbound total = +%d. "+
			"The error is a panic of sentinel's own hotspot.ConcurrencyStatSlot that SlotChain.Entry wrote into the entry. "+
			"The property demands that a passed entry contributes one completion with ITS OWN error (here: none).",
			gotErr, gotInboundErr)
	}
}
