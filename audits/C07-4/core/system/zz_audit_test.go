package system_test

import (
	"math"
	"sync"
	"testing"
	"time"

	sentinel "github.com/alibaba/sentinel-golang/api"
	"github.com/alibaba/sentinel-golang/core/base"
	"github.com/alibaba/sentinel-golang/core/stat"
	"github.com/alibaba/sentinel-golang/core/system"
	"github.com/alibaba/sentinel-golang/util"
)

// auditClock is a clock that can be set to any instant (util.MockClock can only go forward).
type auditClock struct {
	mu  sync.Mutex
	now time.Time
}

func (c *auditClock) Now() time.Time {
	c.mu.Lock()
	defer c.mu.Unlock()
	return c.now
}
func (c *auditClock) Sleep(d time.Duration) {
	c.mu.Lock()
	c.now = c.now.Add(d)
	c.mu.Unlock()
}
func (c *auditClock) CurrentTimeMillis() uint64 { return uint64(c.Now().UnixNano()) / 1e6 }
func (c *auditClock) CurrentTimeNano() uint64   { return uint64(c.Now().UnixNano()) }
func (c *auditClock) setMillis(ms uint64)       { c.mu.Lock(); c.now = time.Unix(0, int64(ms)*1e6); c.mu.Unlock() }

var (
	auditEpochMu sync.Mutex
	auditEpoch   uint64
)

// auditInstallClock installs a settable clock. Every call hands out a base instant (a multiple of 10s, the
// span of the inbound node's bucket array) that lies an hour after the one before, and after the real time
// at which the process-wide inbound node was created, so the tests of this file do not see each other's
// traffic.
func auditInstallClock(t *testing.T) (*auditClock, uint64) {
	auditEpochMu.Lock()
	if auditEpoch == 0 {
		realNow := uint64(time.Now().UnixNano()) / 1e6
		auditEpoch = realNow - realNow%10000
	}
	auditEpoch += 3600 * 1000
	t0 := auditEpoch
	auditEpochMu.Unlock()

	c := &auditClock{}
	c.setMillis(t0)
	util.SetClock(c)
	t.Cleanup(func() {
		_ = system.ClearRules()
		util.SetClock(util.NewRealClock())
	})
	return c, t0
}

// auditInbound sends one inbound request through the default slot chain (public API) and completes it
// at once. It reports whether the request was admitted and, if not, why.
func auditInbound(res string) (bool, *base.BlockError) {
	e, b := sentinel.Entry(res, sentinel.WithTrafficType(base.Inbound))
	if b != nil {
		return false, b
	}
	e.Exit()
	return true, nil
}

// Finding 1: a system rule whose trigger is NaN is accepted as valid and, for the three metric types that
// are compared with "value < trigger", rejects every inbound request although nothing has reached anything.
func TestAuditNaNTriggerBlocksAllInboundTraffic(t *testing.T) {
	auditInstallClock(t)

	for _, mt := range []system.MetricType{system.InboundQPS, system.Concurrency, system.AvgRT} {
		rule := &system.Rule{ID: "nan-" + mt.String(), MetricType: mt, TriggerCount: math.NaN(), Strategy: system.NoAdaptive}
		if err := system.IsValidSystemRule(rule); err != nil {
			// would be the repaired behaviour (flow.IsValidRule refuses a NaN threshold)
			continue
		}
		if _, err := system.LoadRules([]*system.Rule{rule}); err != nil {
			t.Fatalf("LoadRules: %v", err)
		}
		if n := len(system.GetRules()); n != 1 {
			t.Fatalf("rule with NaN trigger: validated but %d rules in force", n)
		}
		qps := stat.InboundNode().GetQPS(base.MetricEventPass)
		conc := stat.InboundNode().CurrentConcurrency()
		rt := stat.InboundNode().AvgRT()
		ok, b := auditInbound("audit-nan-" + mt.String())
		if !ok {
			t.Errorf("%s rule with trigger NaN was accepted by IsValidSystemRule / LoadRules and rejected the very first inbound request "+
				"(inbound QPS=%v, in-flight=%v, avgRT=%v; block: %v). The property demands a system block only when the metric "+
				"has reached the rule's trigger; no value reaches NaN, and with no violated rule every inbound request must pass "+
				"(or the rule must be refused as invalid, as flow.IsValidRule does for a NaN threshold).", mt, qps, conc, rt, b)
		}
		_ = system.ClearRules()
	}
}

// Finding 2: the inbound statistics are kept per wall-clock bucket. After the wall clock is set back
// (NTP step, manual correction, VM restore) the inbound pass count is either dropped (step of at least the
// span of the bucket array, 10s) or added on top of what the same buckets counted the first time (smaller
// step). The InboundQPS rule is then not enforced at all, or blocks traffic that never reached the trigger.
func TestAuditClockSetBackBreaksInboundQPSRule(t *testing.T) {
	t.Run("SetBackBy60s_PassCountDropped_RuleNeverFires", func(t *testing.T) {
		clk, t0 := auditInstallClock(t)
		if _, err := system.LoadRules([]*system.Rule{{MetricType: system.InboundQPS, TriggerCount: 5, Strategy: system.NoAdaptive}}); err != nil {
			t.Fatal(err)
		}
		// 10s of light inbound traffic: one request per 500ms bucket = 2 QPS, well below the trigger of 5.
		for i := uint64(0); i < 20; i++ {
			clk.setMillis(t0 + i*500)
			if ok, b := auditInbound("audit-clock-a"); !ok {
				t.Fatalf("warm-up request %d at 2 QPS was blocked: %v", i, b)
			}
		}
		// the wall clock is corrected by one minute
		clk.setMillis(t0 - 60000)
		admitted := 0
		for i := 0; i < 50; i++ {
			if ok, _ := auditInbound("audit-clock-a"); ok {
				admitted++
			}
		}
		if admitted > 5 {
			t.Errorf("after the wall clock was set back by 60s, %d of 50 inbound requests arriving in the same millisecond were admitted "+
				"by an InboundQPS rule with trigger 5 (inbound QPS seen by the rule: %v). The pass counts are dropped because the "+
				"buckets carry later start times. The property demands a system block as soon as the admitted inbound QPS has "+
				"reached the trigger, i.e. from the 6th request on.", admitted, stat.InboundNode().GetQPS(base.MetricEventPass))
		}
	})

	t.Run("SetBackBy1s_PassCountDoubled_BlocksBelowTrigger", func(t *testing.T) {
		clk, t0 := auditInstallClock(t)
		if _, err := system.LoadRules([]*system.Rule{{MetricType: system.InboundQPS, TriggerCount: 5, Strategy: system.NoAdaptive}}); err != nil {
			t.Fatal(err)
		}
		// steady 4 QPS (2 requests per 500ms bucket), below the trigger of 5
		send := func(from, to uint64) (blockedAt uint64, b *base.BlockError) {
			for ts := from; ts < to; ts += 250 {
				clk.setMillis(ts)
				if ok, be := auditInbound("audit-clock-b"); !ok {
					return ts, be
				}
			}
			return 0, nil
		}
		if ts, b := send(t0, t0+3000); b != nil {
			t.Fatalf("steady 4 QPS blocked at +%dms before any clock step: %v", ts-t0, b)
		}
		// the wall clock is set back by one second; the traffic goes on at the same rate of 4 per second
		if ts, b := send(t0+2000, t0+5000); b != nil {
			t.Errorf("inbound traffic runs at a steady 4 requests per second (one every 250ms), the InboundQPS trigger is 5. After the wall "+
				"clock was set back by 1s the request at +%dms was rejected: %v. The requests of the re-lived second are counted on top "+
				"of those the same buckets counted the first time. The property demands that every inbound request passes while no "+
				"rule is violated: the admitted inbound QPS never reached 5.", ts-t0, b)
		}
	})
}

// Finding 3: the rule manager keeps the caller's *Rule objects. Writing to such an object later changes the
// rule in force without any load and without validation; a following LoadRules of the same object is
// reported as "unchanged" and cannot repair it.
func TestAuditCallerRuleObjectStaysAliasedAfterLoad(t *testing.T) {
	auditInstallClock(t)

	r := &system.Rule{ID: "qps", MetricType: system.InboundQPS, TriggerCount: 100, Strategy: system.NoAdaptive}
	if ok, err := system.LoadRules([]*system.Rule{r}); !ok || err != nil {
		t.Fatalf("LoadRules: %v %v", ok, err)
	}
	if ok, b := auditInbound("audit-alias"); !ok {
		t.Fatalf("first request blocked: %v", b)
	}

	// The application reuses its struct to prepare another configuration. It has not loaded anything.
	r.TriggerCount = -1

	if ok, b := auditInbound("audit-alias"); !ok {
		t.Errorf("the loaded system rule is InboundQPS with trigger 100 and the inbound QPS is %v, yet the request was rejected: %v. "+
			"The caller only wrote to its own Rule struct after LoadRules had returned; nothing was loaded since. The property demands "+
			"a system block only when a LOADED rule is violated.", stat.InboundNode().GetQPS(base.MetricEventPass), b)
	}

	// Loading it now does not help either: the list is compared with the aliased objects, found unchanged, and
	// the invalid trigger (-1, which buildRuleMap would have ignored) stays in force.
	changed, err := system.LoadRules([]*system.Rule{r})
	if ok, b := auditInbound("audit-alias"); !ok {
		t.Errorf("LoadRules of the rule with trigger -1 returned (%v, %v); IsValidSystemRule says %q, so no valid system rule is loaded, "+
			"yet the inbound request was rejected: %v. With no violated rule every inbound request must pass.",
			changed, err, system.IsValidSystemRule(r), b)
	}
}
