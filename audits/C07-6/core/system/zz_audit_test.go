package system_test

import (
	"fmt"
	"sync"
	"testing"
	"time"

	sentinel "github.com/alibaba/sentinel-golang/api"
	"github.com/alibaba/sentinel-golang/core/base"
	"github.com/alibaba/sentinel-golang/core/stat"
	"github.com/alibaba/sentinel-golang/core/system"
	"github.com/alibaba/sentinel-golang/core/system_metric"
	"github.com/alibaba/sentinel-golang/util"
)

// auditClock is a util.Clock whose time only moves when the test says so. On request it moves forward by
// one millisecond at the n-th reading from now on: a real clock ticks between two readings of it, too.
type auditClock struct {
	mu     sync.Mutex
	ms     uint64
	tickAt int // 0: no tick armed
	reads  int
}

func (c *auditClock) CurrentTimeMillis() uint64 {
	c.mu.Lock()
	defer c.mu.Unlock()
	if c.tickAt > 0 {
		c.reads++
		if c.reads == c.tickAt {
			c.ms++
			c.tickAt = 0
		}
	}
	return c.ms
}
func (c *auditClock) CurrentTimeNano() uint64 { return c.CurrentTimeMillis() * 1000000 }
func (c *auditClock) Now() time.Time          { return time.Unix(0, int64(c.CurrentTimeNano())) }
func (c *auditClock) Sleep(d time.Duration) {
	c.mu.Lock()
	c.ms += uint64(d / time.Millisecond)
	c.mu.Unlock()
}
func (c *auditClock) set(ms uint64) {
	c.mu.Lock()
	c.ms = ms
	c.tickAt = 0
	c.mu.Unlock()
}
func (c *auditClock) armTick(n int) {
	c.mu.Lock()
	c.tickAt = n
	c.reads = 0
	c.mu.Unlock()
}

// auditEpoch hands out start times that lie in the future of everything the global inbound node has seen
// (it is created with the real clock when the package is loaded) and 100s apart from each other, so that
// nothing of an earlier scenario is inside the statistic arrays any more. All are multiples of 1000.
var (
	auditEpochMu  sync.Mutex
	auditEpochCur uint64
)

func auditEpoch() uint64 {
	auditEpochMu.Lock()
	defer auditEpochMu.Unlock()
	if auditEpochCur == 0 {
		now := uint64(time.Now().UnixNano() / 1e6)
		auditEpochCur = now - now%1000 + 3600*1000
	}
	auditEpochCur += 100 * 1000
	return auditEpochCur
}

func auditInstallClock(t *testing.T) *auditClock {
	c := &auditClock{}
	c.set(auditEpoch())
	old := util.CurrentClock()
	util.SetClock(c)
	t.Cleanup(func() {
		_ = system.ClearRules()
		system_metric.SetSystemLoad(system_metric.NotRetrievedLoadValue)
		util.SetClock(old)
	})
	return c
}

func auditEnterInbound(t *testing.T, res string) *base.SentinelEntry {
	e, b := sentinel.Entry(res, sentinel.WithTrafficType(base.Inbound))
	if b != nil {
		t.Fatalf("set-up: inbound request on %q was blocked with no system rule loaded: %v", res, b)
	}
	return e
}

// auditProbe puts one inbound request before the system stage alone (nothing is recorded for it) and
// reports whether the stage rejects it.
func auditProbe() (blocked bool, msg string) {
	ctx := base.NewEmptyEntryContext()
	ctx.Resource = base.NewResourceWrapper("audit-probe", base.ResTypeCommon, base.Inbound)
	ctx.RuleCheckResult = base.NewTokenResultPass()
	ctx.Input = &base.SentinelInput{BatchCount: 1}
	r := system.DefaultAdaptiveSlot.Check(ctx)
	if r != nil && r.IsBlocked() {
		return true, r.BlockError().Error()
	}
	return false, ""
}

func auditLoad(t *testing.T, rules ...*system.Rule) {
	if _, err := system.LoadRules(rules); err != nil {
		t.Fatalf("LoadRules: %v", err)
	}
}

// Finding 1: the completion of a request is written with two readings of the clock (response time, then
// completion count). When the clock ticks over a bucket boundary between the two, the response time stays
// in the old bucket and the completion goes to the new one. Half a second later the window holds a
// completion without its response time: the average of the window is 0ms although every request ever made
// took 100ms, and the minimum response time of the window is "none" (60000ms).
func TestAuditCompletionSplitOverBucketBoundary(t *testing.T) {
	clk := auditInstallClock(t)
	const res = "audit-split"
	in := stat.InboundNode()

	avgRule := &system.Rule{MetricType: system.AvgRT, TriggerCount: 50}
	bbrRule := &system.Rule{MetricType: system.Load, TriggerCount: 1, Strategy: system.BBR}

	var avgViolation, bbrViolation string
	// the tick falls on the n-th reading of the clock made while the request exits: every n is a moment at
	// which a real clock may tick
	for n := 1; n <= 12 && (avgViolation == "" || bbrViolation == ""); n++ {
		b := auditEpoch() // a bucket boundary (buckets of the inbound node are 500ms long)
		_ = system.ClearRules()
		system_metric.SetSystemLoad(system_metric.NotRetrievedLoadValue)

		// three inbound requests stay in flight for the whole scenario
		clk.set(b - 101)
		held := []*base.SentinelEntry{auditEnterInbound(t, res), auditEnterInbound(t, res), auditEnterInbound(t, res)}
		// the request under test: enters at b-101, leaves 100ms later at b-1; the clock ticks to b while it leaves
		e := auditEnterInbound(t, res)
		clk.set(b - 1)
		clk.armTick(n)
		e.Exit()
		clk.set(b) // (no tick happened if the exit made fewer than n readings)

		for _, at := range []uint64{b, b + 250, b + 499, b + 500, b + 750, b + 999} {
			clk.set(at)
			done := in.GetSum(base.MetricEventComplete)
			if done < 1 {
				continue // the node knows no completion in its window: nothing to demand
			}
			// The node counts `done` completed inbound requests in the window, and every inbound request that
			// ever completed here took 100ms (101ms when the tick fell on the very first reading).
			if avgViolation == "" {
				auditLoad(t, avgRule)
				if blocked, _ := auditProbe(); !blocked {
					avgViolation = fmt.Sprintf("tick at reading %d of Exit, probe %dms after the boundary: the inbound node counts %d completion(s) in its window, each took >=100ms, "+
						"so the inbound average RT (>=100ms) has reached the AvgRT trigger 50 and the request must be rejected with a system block; "+
						"it passed, the node reports AvgRT()=%v (window sums: rt=%d complete=%d)",
						n, at-b, done, in.AvgRT(), in.GetSum(base.MetricEventRt), done)
				}
			}
			if bbrViolation == "" {
				auditLoad(t, bbrRule)
				system_metric.SetSystemLoad(10)
				blocked, _ := auditProbe()
				system_metric.SetSystemLoad(system_metric.NotRetrievedLoadValue)
				if !blocked {
					bbrViolation = fmt.Sprintf("tick at reading %d of Exit, probe %dms after the boundary: load 10 is above the BBR load trigger 1, %d inbound requests are in flight, "+
						"the window holds %d completion(s) (peak rate at most %d/s) with response time ~100ms, so the estimated capacity is at most %.1f and is exceeded: the request must be rejected; "+
						"it passed, the node reports MinRT()=%vms, peak completion rate %v/s, i.e. capacity %v",
						n, at-b, in.CurrentConcurrency(), done, 2*done, float64(2*done)*0.101, in.MinRT(), in.GetMaxAvg(base.MetricEventComplete),
						in.GetMaxAvg(base.MetricEventComplete)*in.MinRT()/1000)
				}
			}
			_ = system.ClearRules()
		}
		clk.set(b + 2000)
		for _, h := range held {
			h.Exit()
		}
	}
	if c := in.CurrentConcurrency(); c != 0 {
		t.Fatalf("set-up: %d inbound requests left in flight", c)
	}
	if avgViolation != "" {
		t.Errorf("AvgRT rule: %s", avgViolation)
	}
	if bbrViolation != "" {
		t.Errorf("BBR load rule: %s", bbrViolation)
	}
}

// auditFillTwoBuckets lets perBucket inbound requests complete in each of the two buckets [b-500,b) and
// [b,b+500), each after rtMs milliseconds, and leaves the clock at b+rtMs+1 with inFlight more requests
// admitted and not completed. The completion rate is 2*perBucket per second whether it is taken per
// bucket or over the whole one-second window.
func auditFillTwoBuckets(t *testing.T, clk *auditClock, res string, b uint64, perBucket int, rtMs uint64, inFlight int) (held []*base.SentinelEntry) {
	for _, start := range []uint64{b - 500, b} {
		clk.set(start)
		es := make([]*base.SentinelEntry, 0, perBucket)
		for i := 0; i < perBucket; i++ {
			es = append(es, auditEnterInbound(t, res))
		}
		clk.set(start + rtMs)
		for _, e := range es {
			e.Exit()
		}
	}
	clk.set(b + rtMs + 1)
	for i := 0; i < inFlight; i++ {
		held = append(held, auditEnterInbound(t, res))
	}
	return held
}

// Finding 2: the BBR capacity is computed as count/500*1000*minRt/1000 in floating point. 1005 completions
// per 500ms bucket are 2010/s, times 100ms that is a capacity of exactly 201; the code gets
// 200.99999999999997 and rejects the request that finds 201 in flight, although 201 does not exceed 201.
func TestAuditBbrCapacityRoundedBelowExactValue(t *testing.T) {
	clk := auditInstallClock(t)
	in := stat.InboundNode()
	b := auditEpoch()
	_ = system.ClearRules()
	held := auditFillTwoBuckets(t, clk, "audit-bbr-round", b, 1005, 100, 201)
	defer func() {
		_ = system.ClearRules()
		clk.set(b + 5000)
		for _, h := range held {
			h.Exit()
		}
	}()
	clk.set(b + 102)
	if c, m, p := in.CurrentConcurrency(), in.MinRT(), in.GetSum(base.MetricEventComplete); c != 201 || m != 100 || p != 2010 {
		t.Fatalf("set-up: in flight %d (want 201), min RT %v (want 100), completions in the window %d (want 2010)", c, m, p)
	}

	auditLoad(t, &system.Rule{MetricType: system.Load, TriggerCount: 1, Strategy: system.BBR})
	system_metric.SetSystemLoad(2)
	blocked, msg := auditProbe()
	if blocked {
		t.Errorf("BBR load rule (trigger 1, load 2): 2010 inbound completions in the last second, 1005 in each 500ms bucket, i.e. a peak completion rate of 2010/s; "+
			"minimum response time 100ms; estimated capacity 2010/s * 0.1s = 201; 201 inbound requests in flight do NOT exceed 201, so no rule is violated and the request must pass. "+
			"It was rejected (%q): the code computes peak rate %v/s and capacity %v",
			msg, in.GetMaxAvg(base.MetricEventComplete), in.GetMaxAvg(base.MetricEventComplete)*in.MinRT()/1000)
	}
}

// Finding 3: a minimum response time of 0ms is raised to 1ms before the BBR capacity is computed. With a
// peak completion rate of 3000/s the property's capacity is 3000/s * 0s = 0, which two requests in flight
// exceed; the code takes 3000 * 1ms = 3 and lets the request pass although load is above the trigger.
func TestAuditBbrMinRtZeroTakenAsOneMillisecond(t *testing.T) {
	clk := auditInstallClock(t)
	in := stat.InboundNode()
	b := auditEpoch()
	_ = system.ClearRules()
	held := auditFillTwoBuckets(t, clk, "audit-bbr-minrt0", b, 1500, 0, 2)
	defer func() {
		_ = system.ClearRules()
		clk.set(b + 5000)
		for _, h := range held {
			h.Exit()
		}
	}()
	clk.set(b + 2)
	if c, r, p := in.CurrentConcurrency(), in.GetSum(base.MetricEventRt), in.GetSum(base.MetricEventComplete); c != 2 || r != 0 || p != 3000 {
		t.Fatalf("set-up: in flight %d (want 2), response time sum %d (want 0), completions in the window %d (want 3000)", c, r, p)
	}

	auditLoad(t, &system.Rule{MetricType: system.Load, TriggerCount: 1, Strategy: system.BBR})
	system_metric.SetSystemLoad(2)
	blocked, _ := auditProbe()
	if !blocked {
		t.Errorf("BBR load rule (trigger 1, load 2): 3000 inbound completions in the last second (peak completion rate 3000/s), every one with a response time of 0ms, "+
			"so the minimum response time is 0ms and the estimated capacity is 3000/s * 0s = 0; 2 inbound requests are in flight, which exceeds 0: the rule is violated and the request must be rejected with a system block. "+
			"It passed: the code takes MinRT()=%vms and a capacity of %v",
			in.MinRT(), in.GetMaxAvg(base.MetricEventComplete)*in.MinRT()/1000)
	}
}
