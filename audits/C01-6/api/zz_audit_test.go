package api

import (
	"os"
	"os/exec"
	"strconv"
	"strings"
	"testing"
	"time"

	"github.com/alibaba/sentinel-golang/core/base"
	"github.com/alibaba/sentinel-golang/core/stat"
	"github.com/alibaba/sentinel-golang/logging"
)

// silentLogger keeps the spinning goroutine (it logs an error on every turn) from flooding the output.
type silentLogger struct{}

func (silentLogger) Debug(string, ...interface{})        {}
func (silentLogger) DebugEnabled() bool                  { return false }
func (silentLogger) Info(string, ...interface{})         {}
func (silentLogger) InfoEnabled() bool                   { return false }
func (silentLogger) Warn(string, ...interface{})         {}
func (silentLogger) WarnEnabled() bool                   { return false }
func (silentLogger) Error(error, string, ...interface{}) {}
func (silentLogger) ErrorEnabled() bool                  { return false }

// TestAudit_EntryOnPlatformWithInt32 : on a platform whose int has 32 bits (GOARCH=386, arm, mips, ...)
// a plain Entry / Exit on the default slot chain, at today's wall clock time, never returns.
//
// The property demands that every Entry call yields exactly one outcome. Here it yields none: the caller
// hangs inside stat.Slot.OnEntryPassed (BaseStatNode.IncreaseConcurrency -> LeapArray.currentBucketOfTime),
// because LeapArray.calculateTimeIdx converts now/bucketLength (about 3.6e9 today) to int before taking
// the remainder; with a 32 bit int that is negative, no bucket has a negative index, and the loop in
// currentBucketOfTime spins for ever.
//
// On a 64 bit platform the test rebuilds and runs itself with GOARCH=386 (the kernel of the sandbox runs
// 32 bit binaries); run `GOARCH=386 go test -vet=off -count=1 -run Audit ./api/` to see it directly.
func TestAudit_EntryOnPlatformWithInt32(t *testing.T) {
	if strconv.IntSize == 64 {
		if os.Getenv("SENTINEL_AUDIT_INNER") != "" {
			t.Skip("inner run on a 64 bit platform")
		}
		cmd := exec.Command("go", "test", "-vet=off", "-count=1", "-run", "^TestAudit_EntryOnPlatformWithInt32$", ".")
		cmd.Env = append(os.Environ(), "GOARCH=386", "CGO_ENABLED=0", "SENTINEL_AUDIT_INNER=1")
		out, err := cmd.CombinedOutput()
		text := string(out)
		if err != nil && !strings.Contains(text, "AUDIT-C01-32BIT") {
			t.Skipf("cannot build / run a GOARCH=386 test binary here (%v); run `GOARCH=386 go test -run Audit ./api/` where that is possible\n%s", err, text)
		}
		if err != nil {
			t.Fatalf("the same test built with GOARCH=386 fails:\n%s", text)
		}
		return
	}

	_ = logging.ResetGlobalLogger(silentLogger{})

	type outcome struct {
		e *base.SentinelEntry
		b *base.BlockError
	}
	done := make(chan outcome, 1)
	go func() {
		e, b := Entry("audit6-int32", WithTrafficType(base.Inbound))
		done <- outcome{e, b}
	}()
	select {
	case o := <-done:
		if o.b != nil {
			t.Fatalf("AUDIT-C01-32BIT: no rule is loaded, yet Entry was blocked: %v", o.b)
		}
		o.e.Exit()
		if c := stat.GetResourceNode("audit6-int32").CurrentConcurrency(); c != 0 {
			t.Fatalf("AUDIT-C01-32BIT: concurrency is %d with no entry in flight, the property demands 0", c)
		}
	case <-time.After(3 * time.Second):
		t.Fatalf("AUDIT-C01-32BIT: Entry(\"audit6-int32\") on the default slot chain did not return within 3s on a platform "+
			"with %d bit int (wall clock %d ms): the caller spins in LeapArray.currentBucketOfTime because "+
			"calculateTimeIdx returned a negative bucket index. The property demands that every Entry call "+
			"yields exactly one outcome (an entry or a block error).", strconv.IntSize, time.Now().UnixNano()/1e6)
	}
}
