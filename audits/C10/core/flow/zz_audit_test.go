package flow

import (
	"sync"
	"testing"
	"time"

	"github.com/alibaba/sentinel-golang/core/base"
	"github.com/alibaba/sentinel-golang/core/stat"
	"github.com/alibaba/sentinel-golang/util"
)

// auditClock is a virtual nanosecond clock: time only moves when the test (or a Sleep asked for
// by the flow slot) moves it.
type auditClock struct {
	mu  sync.Mutex
	now int64 // unix nanoseconds
}

func (c *auditClock) Now() time.Time {
	c.mu.Lock()
	defer c.mu.Unlock()
	return time.Unix(0, c.now)
}
func (c *auditClock) Sleep(d time.Duration) {
	if d <= 0 {
		return
	}
	c.mu.Lock()
	c.now += int64(d)
	c.mu.Unlock()
}
func (c *auditClock) CurrentTimeMillis() uint64 { return uint64(c.Now().UnixNano()) / 1e6 }
func (c *auditClock) CurrentTimeNano() uint64   { return uint64(c.Now().UnixNano()) }
func (c *auditClock) set(ns int64) {
	c.mu.Lock()
	c.now = ns
	c.mu.Unlock()
}

const auditT0 = int64(1700000000) * int64(time.Second)

func auditSetup(t *testing.T) *auditClock {
	t.Helper()
	old := util.CurrentClock()
	clk := &auditClock{now: auditT0}
	util.SetClock(clk)
	if err := ClearRules(); err != nil {
		t.Fatal(err)
	}
	t.Cleanup(func() {
		_ = ClearRules()
		util.SetClock(old)
	})
	return clk
}

func auditCtx(res string, batch uint32) *base.EntryContext {
	return &base.EntryContext{
		Resource:        base.NewResourceWrapper(res, base.ResTypeCommon, base.Inbound),
		StatNode:        stat.GetOrCreateResourceNode(res, base.ResTypeCommon),
		Input:           &base.SentinelInput{BatchCount: batch},
		RuleCheckResult: base.NewTokenResultPass(),
	}
}

// auditCheck runs one request through the flow slot at virtual time `at` and reports whether it
// was admitted and the pass time it was given (arrival time + the time the slot slept).
func auditCheck(clk *auditClock, res string, batch uint32, at int64) (admitted bool, passTime int64) {
	clk.set(at)
	r := DefaultSlot.Check(auditCtx(res, batch))
	if r != nil && r.IsBlocked() {
		return false, 0
	}
	return true, int64(clk.CurrentTimeNano())
}

// Finding 1: the spacing is computed in floating point as ceil(batch/threshold*interval). For many
// plain configurations whose exact spacing is a whole number of nanoseconds the product comes out a
// hair above that integer and ceil adds a full nanosecond. A request whose required wait is EXACTLY
// the maximum queueing time (so honouring the spacing does not exceed the limit) is then rejected.
func TestAuditThrottlingRejectsRequestWhoseWaitEqualsTheLimit(t *testing.T) {
	cases := []struct {
		name                string
		threshold           float64
		statMs, maxQueueMs  uint32
		batch               uint32
		secondArrivalOffset int64 // ns after the first request
		exactSpacingNs      int64
	}{
		// 150 tokens per 150ms, batch 1: spacing is exactly 1ms. Limit 1ms, both arrive together.
		{"150 per 150ms, limit 1ms, simultaneous", 150, 150, 1, 1, 0, 1000000},
		// same rule, no queueing allowed: the second request arrives exactly one spacing later.
		{"150 per 150ms, limit 0, arrives exactly one spacing later", 150, 150, 0, 1, 1000000, 1000000},
		// 25 tokens per 100ms, batch 7: spacing is exactly 28ms. Limit 28ms, both arrive together.
		{"25 per 100ms, batch 7, limit 28ms, simultaneous", 25, 100, 28, 7, 0, 28000000},
	}
	for _, c := range cases {
		t.Run(c.name, func(t *testing.T) {
			clk := auditSetup(t)
			res := "audit-f1"
			if _, err := LoadRules([]*Rule{{
				Resource: res, TokenCalculateStrategy: Direct, ControlBehavior: Throttling,
				Threshold: c.threshold, StatIntervalInMs: c.statMs, MaxQueueingTimeMs: c.maxQueueMs,
			}}); err != nil {
				t.Fatal(err)
			}
			// sanity of the test itself: exact spacing = batch * interval / threshold, an integer
			if got := int64(c.batch) * int64(c.statMs) * 1000000 / int64(c.threshold); got != c.exactSpacingNs ||
				(int64(c.batch)*int64(c.statMs)*1000000)%int64(c.threshold) != 0 {
				t.Fatalf("bad test case: exact spacing %d", got)
			}
			ok, p1 := auditCheck(clk, res, c.batch, auditT0)
			if !ok || p1 != auditT0 {
				t.Fatalf("first request of an idle rule must pass at once, got admitted=%v pass=%d", ok, p1-auditT0)
			}
			arrival := auditT0 + c.secondArrivalOffset
			needWait := p1 + c.exactSpacingNs - arrival
			limit := int64(c.maxQueueMs) * 1000000
			ok, p2 := auditCheck(clk, res, c.batch, arrival)
			if !ok {
				t.Fatalf("second request (arrives %dns after the first, batch %d, threshold %v per %dms) was REJECTED. "+
					"Honouring the spacing of exactly %dns needs a wait of %dns, which does not exceed the maximum queueing time of %dns; "+
					"the property allows a rejection only when the spacing would exceed that limit",
					c.secondArrivalOffset, c.batch, c.threshold, c.statMs, c.exactSpacingNs, needWait, limit)
			}
			if p2-p1 < c.exactSpacingNs || p2-arrival > limit {
				t.Fatalf("second request admitted with pass time %d after the first (spacing needed %d) and wait %d (limit %d)",
					p2-p1, c.exactSpacingNs, p2-arrival, limit)
			}
		})
	}
}

// Finding 2: a reload decides whether a rule changed with an absolute 1e-8 tolerance on the
// threshold. A threshold changed by less than that keeps the OLD controller, so the rule that was
// loaded is not the rule that is enforced.
func TestAuditThrottlingReloadWithSlightlyDifferentThresholdKeepsOldThreshold(t *testing.T) {
	t.Run("batch equal to the new threshold is rejected", func(t *testing.T) {
		clk := auditSetup(t)
		res := "audit-f2a"
		mk := func(th float64) *Rule {
			return &Rule{Resource: res, TokenCalculateStrategy: Direct, ControlBehavior: Throttling,
				Threshold: th, StatIntervalInMs: 1000, MaxQueueingTimeMs: 5000}
		}
		if _, err := LoadRules([]*Rule{mk(0.999999995)}); err != nil {
			t.Fatal(err)
		}
		if ok, _ := auditCheck(clk, res, 1, auditT0); ok {
			t.Fatalf("setup: batch 1 exceeds threshold 0.999999995 and must be rejected")
		}
		loaded, err := LoadRules([]*Rule{mk(1.0)})
		if err != nil || !loaded {
			t.Fatalf("LoadRules(threshold 1.0): loaded=%v err=%v", loaded, err)
		}
		if ok, _ := auditCheck(clk, res, 1, auditT0+int64(time.Hour)); !ok {
			t.Fatalf("after LoadRules replaced the rule by one with threshold 1.0 (LoadRules reported the load as done), "+
				"the first request of an idle rule, batch 1, was REJECTED. Its batch does not exceed the threshold and no spacing is pending, "+
				"so the property forbids the rejection; rule in force according to GetRules: %+v", GetRulesOfResource(res))
		}
	})
	t.Run("spacing is shorter than batch/threshold of the interval", func(t *testing.T) {
		clk := auditSetup(t)
		res := "audit-f2b"
		const hourMs = 3600 * 1000
		mk := func(th float64) *Rule {
			return &Rule{Resource: res, TokenCalculateStrategy: Direct, ControlBehavior: Throttling,
				Threshold: th, StatIntervalInMs: hourMs, MaxQueueingTimeMs: 2 * hourMs}
		}
		if _, err := LoadRules([]*Rule{mk(1.000000009)}); err != nil {
			t.Fatal(err)
		}
		loaded, err := LoadRules([]*Rule{mk(1.0)})
		if err != nil || !loaded {
			t.Fatalf("LoadRules(threshold 1.0): loaded=%v err=%v", loaded, err)
		}
		ok1, p1 := auditCheck(clk, res, 1, auditT0)
		ok2, p2 := auditCheck(clk, res, 1, auditT0)
		if !ok1 || !ok2 {
			t.Fatalf("both requests should be admitted (limit is two intervals), got %v %v", ok1, ok2)
		}
		need := int64(hourMs) * 1000000 // batch 1 / threshold 1.0 of one hour
		if p2-p1 < need {
			t.Fatalf("rule loaded last: threshold 1.0 per hour. Two admitted batch-1 requests got pass times only %dns apart, "+
				"%dns less than batch/threshold of the statistic interval (%dns); the spacing of the replaced rule (threshold 1.000000009) is still applied",
				p2-p1, need-(p2-p1), need)
		}
	})
}

// Finding 3: changing any field of a throttling rule (here only the queueing limit) on reload
// builds a fresh checker whose last pass time is zero; the reservations handed out to requests
// that are still queueing are forgotten.
func TestAuditThrottlingReloadOfModifiedRuleForgetsQueuedPassTimes(t *testing.T) {
	clk := auditSetup(t)
	res := "audit-f3"
	mk := func(maxQueueMs uint32) *Rule {
		return &Rule{ID: "r1", Resource: res, TokenCalculateStrategy: Direct, ControlBehavior: Throttling,
			Threshold: 1, StatIntervalInMs: 1000, MaxQueueingTimeMs: maxQueueMs}
	}
	if _, err := LoadRules([]*Rule{mk(10000)}); err != nil {
		t.Fatal(err)
	}
	var last int64
	for i := 0; i < 5; i++ {
		ok, p := auditCheck(clk, res, 1, auditT0)
		if !ok || p != auditT0+int64(i)*int64(time.Second) {
			t.Fatalf("setup: request %d admitted=%v pass=+%dns", i, ok, p-auditT0)
		}
		last = p
	}
	// last == T0+4s. 100ms after T0 only the queueing limit of the rule is changed.
	if _, err := LoadRules([]*Rule{mk(10001)}); err != nil {
		t.Fatal(err)
	}
	arrival := auditT0 + 100*int64(time.Millisecond)
	ok, p := auditCheck(clk, res, 1, arrival)
	if ok && p-last < int64(time.Second) {
		t.Fatalf("five requests were admitted with pass times T0 .. T0+4s; then the rule (ID r1, 1 per second) was reloaded with only "+
			"MaxQueueingTimeMs changed 10000 -> 10001. A request arriving at T0+100ms was admitted with pass time T0+%dms: "+
			"that is %dms BEFORE the pass time of the previously admitted request instead of at least 1000ms after it "+
			"(consecutive pass times must be separated by batch/threshold of the statistic interval)",
			(p-auditT0)/1e6, (last-p)/1e6)
	}
}
