package circuitbreaker

import (
	"errors"
	"fmt"
	"sync"
	"sync/atomic"
	"testing"
	"time"

	"github.com/alibaba/sentinel-golang/core/base"
	"github.com/alibaba/sentinel-golang/util"
)

// auditClock is a util.Clock that the test sets to any reading, also an earlier one
// (util.MockClock can only go forward).
type auditClock struct {
	ms int64
}

func (c *auditClock) set(ms uint64) { atomic.StoreInt64(&c.ms, int64(ms)) }
func (c *auditClock) Now() time.Time {
	return time.Unix(0, atomic.LoadInt64(&c.ms)*int64(time.Millisecond))
}
func (c *auditClock) Sleep(d time.Duration) {
	atomic.AddInt64(&c.ms, int64(d/time.Millisecond))
}
func (c *auditClock) CurrentTimeMillis() uint64 { return uint64(atomic.LoadInt64(&c.ms)) }
func (c *auditClock) CurrentTimeNano() uint64 {
	return uint64(atomic.LoadInt64(&c.ms)) * uint64(time.Millisecond)
}

type auditEvent struct {
	from, to State
	snapshot interface{}
	atMs     uint64
}

func (e auditEvent) String() string {
	f, t := e.from, e.to
	return fmt.Sprintf("%s->%s(snapshot=%v, clock=%d)", f.String(), t.String(), e.snapshot, e.atMs)
}

type auditListener struct {
	mu     sync.Mutex
	events []auditEvent
}

func (l *auditListener) add(from, to State, snapshot interface{}) {
	l.mu.Lock()
	defer l.mu.Unlock()
	l.events = append(l.events, auditEvent{from: from, to: to, snapshot: snapshot, atMs: util.CurrentTimeMillis()})
}
func (l *auditListener) OnTransformToClosed(prev State, _ Rule) { l.add(prev, Closed, nil) }
func (l *auditListener) OnTransformToOpen(prev State, _ Rule, snapshot interface{}) {
	l.add(prev, Open, snapshot)
}
func (l *auditListener) OnTransformToHalfOpen(prev State, _ Rule) { l.add(prev, HalfOpen, nil) }
func (l *auditListener) all() []auditEvent {
	l.mu.Lock()
	defer l.mu.Unlock()
	return append([]auditEvent(nil), l.events...)
}

// auditEnter sends one request for res through the chain; it returns the entry if the request was
// admitted and nil if it was blocked (a blocked entry is exited at once, as api.Entry does).
func auditEnter(sc *base.SlotChain, res string) *base.SentinelEntry {
	rw := base.NewResourceWrapper(res, base.ResTypeCommon, base.Inbound)
	ctx := sc.GetPooledContext()
	ctx.Resource = rw
	e := base.NewSentinelEntry(ctx, rw, sc)
	ctx.SetEntry(e)
	r := sc.Entry(ctx)
	if r != nil && r.IsBlocked() {
		e.Exit()
		return nil
	}
	return e
}

// Finding 1.
//
// An error-count breaker (threshold 3) is opened by three failed requests, probed after its retry timeout,
// and the probe succeeds: the breaker closes, and closing clears the statistic ("resetMetric") so that the
// new closed period starts from zero. While the probe was in flight the wall clock was stepped back (NTP)
// behind the start of the statistic bucket that holds the three failures. resetMetric clears only the buckets
// that LeapArray.Values() returns for the CURRENT clock reading, a bucket that starts after "now" is skipped
// as "deprecated": the three failures survive the close. As soon as the clock has caught up with that bucket,
// the first completion - a SUCCESSFUL one - finds errorCount=3 and opens the breaker again: a Closed->Open
// transition is performed and reported to the listeners although not one request has failed in this closed
// period.
func TestAudit_ClosedPeriodOpensOnFailuresThatTheCloseShouldHaveCleared(t *testing.T) {
	for _, buckets := range []uint32{2, 1} {
		buckets := buckets
		t.Run(fmt.Sprintf("buckets=%d", buckets), func(t *testing.T) {
			const res = "audit-c12-stale-stat"
			const base0 = uint64(1700000000000) // a multiple of the 10 s interval
			clock := &auditClock{}
			clock.set(base0 + 100)
			util.SetClock(clock)
			defer util.SetClock(util.NewRealClock())

			lis := &auditListener{}
			ClearStateChangeListeners()
			RegisterStateChangeListeners(lis)
			defer ClearStateChangeListeners()

			if _, err := LoadRules([]*Rule{{
				Resource:                     res,
				Strategy:                     ErrorCount,
				RetryTimeoutMs:               1000,
				MinRequestAmount:             0,
				StatIntervalMs:               10000,
				StatSlidingWindowBucketCount: buckets,
				Threshold:                    3,
			}}); err != nil {
				t.Fatal(err)
			}
			defer func() { _ = ClearRules() }()
			sc := base.NewSlotChain()
			sc.AddRuleCheckSlot(DefaultSlot)
			sc.AddStatSlot(DefaultMetricStatSlot)
			cb := getBreakersOfResource(res)[0]

			// three failures at base0+5600 (with two buckets: in the bucket [base0+5000, base0+10000))
			clock.set(base0 + 5600)
			for i := 0; i < 3; i++ {
				e := auditEnter(sc, res)
				if e == nil {
					t.Fatalf("setup: request %d blocked by a closed breaker", i)
				}
				e.Exit(base.WithError(errors.New("biz error")))
			}
			if cb.CurrentState() != Open {
				t.Fatalf("setup: three failures should have opened the breaker, state=%v", cb.CurrentState())
			}
			// the retry timeout elapses, the probe is admitted
			clock.set(base0 + 5600 + 1000)
			probe := auditEnter(sc, res)
			if probe == nil || cb.CurrentState() != HalfOpen {
				t.Fatalf("setup: probe not admitted after the retry timeout, state=%v", cb.CurrentState())
			}
			// while the probe is in flight the clock is stepped back by 2.6 s (behind the start of the bucket
			// with the failures; with one bucket of 10 s: back by 7 s, behind base0)
			if buckets == 1 {
				clock.set(base0 - 400)
			} else {
				clock.set(base0 + 4000)
			}
			probe.Exit() // the probe succeeds
			if cb.CurrentState() != Closed {
				t.Fatalf("setup: a successful probe should have closed the breaker, state=%v", cb.CurrentState())
			}
			closedAt := len(lis.all())

			// time goes on; the clock reaches the bucket of the old failures again (still within the 10 s window)
			clock.set(base0 + 5700)
			failedSinceClose := 0
			for i := 0; i < 2; i++ {
				e := auditEnter(sc, res)
				if e == nil {
					break
				}
				e.Exit() // SUCCESSFUL completion
			}

			for _, ev := range lis.all()[closedAt:] {
				if ev.to == Open && ev.from == Closed {
					t.Fatalf("the breaker was closed by a successful probe (closing clears its statistic) and then a Closed->Open "+
						"transition was performed and reported to the listeners with snapshot errorCount=%v although %d requests have failed "+
						"since it closed (every completion since then was a success). The three failures behind it are those of the PREVIOUS "+
						"closed period, which were already answered by the previous Closed->Open: resetMetric() skipped their bucket because it "+
						"starts after the stepped-back clock reading. The property demands that each transition is performed and reported exactly "+
						"once, for the closed period it belongs to: an opening must rest on failures counted since the breaker closed. "+
						"Transitions: %v",
						ev.snapshot, failedSinceClose, lis.all())
				}
			}
			if cb.CurrentState() != Closed {
				t.Fatalf("breaker left Closed without a failure, state=%v, transitions=%v", cb.CurrentState(), lis.all())
			}
		})
	}
}
