package circuitbreaker_test

import (
	"errors"
	"fmt"
	"sync"
	"sync/atomic"
	"testing"
	"time"

	sentinel "github.com/alibaba/sentinel-golang/api"
	"github.com/alibaba/sentinel-golang/core/base"
	cb "github.com/alibaba/sentinel-golang/core/circuitbreaker"
	"github.com/alibaba/sentinel-golang/util"
)

// auditClock is a clock the test can set to any value, also to an earlier one (an NTP step).
type auditClock struct{ ms int64 }

func (c *auditClock) set(ms uint64) { atomic.StoreInt64(&c.ms, int64(ms)) }
func (c *auditClock) Now() time.Time {
	return time.Unix(0, atomic.LoadInt64(&c.ms)*int64(time.Millisecond))
}
func (c *auditClock) Sleep(d time.Duration)     { atomic.AddInt64(&c.ms, int64(d/time.Millisecond)) }
func (c *auditClock) CurrentTimeMillis() uint64 { return uint64(atomic.LoadInt64(&c.ms)) }
func (c *auditClock) CurrentTimeNano() uint64 {
	return uint64(atomic.LoadInt64(&c.ms)) * uint64(time.Millisecond)
}

type auditListener struct {
	mu     sync.Mutex
	clock  *auditClock
	events []string
}

func (l *auditListener) add(s string) {
	l.mu.Lock()
	l.events = append(l.events, fmt.Sprintf("%s@%d", s, l.clock.CurrentTimeMillis()))
	l.mu.Unlock()
}
func (l *auditListener) OnTransformToClosed(prev cb.State, _ cb.Rule) { l.add("Closed") }
func (l *auditListener) OnTransformToOpen(prev cb.State, _ cb.Rule, _ interface{}) {
	l.add("Open")
}
func (l *auditListener) OnTransformToHalfOpen(prev cb.State, _ cb.Rule) { l.add("HalfOpen") }

// request performs one request on the resource at the current clock value; fail marks it as failed.
// It reports whether the request was admitted.
func auditRequest(sc *base.SlotChain, res string, fail bool) bool {
	e, b := sentinel.Entry(res, sentinel.WithSlotChain(sc))
	if b != nil {
		return false
	}
	if fail {
		sentinel.TraceError(e, errors.New("biz error"))
	}
	e.Exit()
	return true
}

// A breaker that is opened again after the wall clock was set back keeps the retry deadline of its
// PREVIOUS open period: the new open period lasts until that old deadline instead of RetryTimeoutMs.
//
// Scenario (ErrorCount, Threshold 1, MinRequestAmount 1, one bucket of 60 s, RetryTimeoutMs 5000):
//
//	base+10000  a request fails           -> Open, probe due at base+15000
//	base+15000  the probe succeeds        -> Closed, statistic cleared
//	            the clock is set back 14 s (NTP step) to base+1000 - same statistic bucket
//	base+1000   a request fails           -> Open again; the property demands a probe at base+6000
//	base+6000   request                   -> must be admitted as the probe
func TestAuditReopenAfterClockSetBackKeepsOldRetryDeadline(t *testing.T) {
	const (
		res     = "audit-c03-reopen-after-setback"
		bucket  = uint64(60000)
		retryMs = 5000
	)
	base0 := bucket * 28000000 // start of a statistic bucket
	clock := &auditClock{}
	clock.set(base0 + 10000)
	oldClock := util.CurrentClock()
	util.SetClock(clock)
	defer util.SetClock(oldClock)

	l := &auditListener{clock: clock}
	cb.ClearStateChangeListeners()
	cb.RegisterStateChangeListeners(l)
	defer cb.ClearStateChangeListeners()

	if _, err := cb.LoadRules([]*cb.Rule{{
		Resource:         res,
		Strategy:         cb.ErrorCount,
		RetryTimeoutMs:   retryMs,
		MinRequestAmount: 1,
		StatIntervalMs:   uint32(bucket),
		Threshold:        1,
	}}); err != nil {
		t.Fatal(err)
	}
	defer cb.ClearRules()

	sc := base.NewSlotChain()
	sc.AddRuleCheckSlot(cb.DefaultSlot)
	sc.AddStatSlot(cb.DefaultMetricStatSlot)

	// first open period, regular
	if !auditRequest(sc, res, true) {
		t.Fatal("setup: the first request must be admitted")
	}
	clock.set(base0 + 12000)
	if auditRequest(sc, res, false) {
		t.Fatal("setup: the breaker must be open at base+12000")
	}
	clock.set(base0 + 15000)
	if !auditRequest(sc, res, false) {
		t.Fatal("setup: the probe must be admitted at base+15000")
	}
	// closed again. The wall clock is stepped back by 14 s.
	clock.set(base0 + 1000)
	if !auditRequest(sc, res, true) {
		t.Fatal("setup: the breaker is closed, the request at base+1000 must be admitted")
	}
	if auditRequest(sc, res, false) {
		t.Fatal("setup: the failure at base+1000 must have opened the breaker (1 error >= threshold 1)")
	}
	reopenedAt := base0 + 1000

	// the open period that began at base+1000 ends RetryTimeoutMs later
	clock.set(reopenedAt + retryMs)
	if auditRequest(sc, res, false) {
		return // as the property demands
	}
	// find out how long it really lasts
	firstAdmitted := uint64(0)
	for off := uint64(retryMs) + 500; off <= 20000; off += 500 {
		clock.set(reopenedAt + off)
		if auditRequest(sc, res, false) {
			firstAdmitted = off
			break
		}
	}
	t.Fatalf("the breaker (RetryTimeoutMs=%d) was opened at clock base+1000 and still rejects the request at base+%d, "+
		"%d ms later; the first probe was admitted %d ms after the opening (0 = none within 20 s). "+
		"The property demands: while open every request is rejected until the retry timeout has elapsed, after which one "+
		"probe is admitted. Cause: updateNextRetryTimestamp only ever moves the deadline forward, so the open period "+
		"that began after the clock was set back kept the deadline base+15000 of the previous open period. "+
		"Transitions seen (clock relative to %d): %v",
		retryMs, 1000+retryMs, retryMs, firstAdmitted, base0, l.events)
}
