#!/bin/bash
# Offline set-up after a fresh restore: build the driver and warm the Go build cache.
set -eu
cd "$(dirname "$0")"
export GOFLAGS=-mod=mod GOPROXY=off GOSUMDB=off GOTOOLCHAIN=local TZ=UTC
mkdir -p bin evidence replays
go build -o bin/vsim ./cmd/vsim
bin/vsim build
