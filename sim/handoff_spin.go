//go:build race

package sim

import "runtime"

// Race builds: hand-off by spinning on a plain word inside norace code, so the
// scheduler contributes no happens-before edge of its own and the race
// detector judges only the program's own synchronisation while the
// interleaving is still the seeded one.
type handoff struct{ flag uint32 }

//go:norace
func (h *handoff) init() { h.flag = 0 }

//go:norace
func (h *handoff) park() {
	for h.flag == 0 {
		runtime.Gosched()
	}
	h.flag = 0
}

//go:norace
func (h *handoff) unpark() { h.flag = 1 }

const RaceBuild = true
