package sim

import "time"

// Clock is the virtual clock. It satisfies sentinel's util.Clock structurally.
// All fields are touched only from norace code: the simulator decides who runs,
// so there is never a real concurrent access, and the race detector must not
// see simulator bookkeeping as program synchronisation.
type Clock struct {
	ns uint64 // virtual nanoseconds since the Unix epoch

	// Sleeps records every Sleep request (E1: in call order).
	Sleeps []SleepReq
	// OnSleep, when set, replaces the default behaviour of Sleep.
	OnSleep func(d time.Duration)
	// Reads counts clock reads (coverage statistic only).
	Reads uint64
	// OnRead, when set, runs before every clock read (fault injection: time that moves on while one
	// operation of the code under test is in progress).
	OnRead func()
}

type SleepReq struct {
	Task int
	AtNs uint64
	D    time.Duration
}

func NewClock(startNs uint64) *Clock {
	return &Clock{ns: startNs, Sleeps: make([]SleepReq, 0, 1024)}
}

//go:norace
func (c *Clock) NowNs() uint64 { return c.ns }

//go:norace
func (c *Clock) NowMs() uint64 { return c.ns / 1e6 }

//go:norace
func (c *Clock) SetNs(ns uint64) { c.ns = ns }

//go:norace
func (c *Clock) AdvanceNs(d uint64) { c.ns += d }

//go:norace
func (c *Clock) AdvanceMs(d uint64) { c.ns += d * 1e6 }

//go:norace
func (c *Clock) Now() time.Time {
	if c.OnRead != nil {
		c.OnRead()
	}
	c.Reads++
	noteClockRead(c.ns, 2)
	return time.Unix(0, int64(c.ns))
}

//go:norace
func (c *Clock) CurrentTimeMillis() uint64 {
	if c.OnRead != nil {
		c.OnRead()
	}
	c.Reads++
	noteClockRead(c.ns, 0)
	return c.ns / 1e6
}

//go:norace
func (c *Clock) CurrentTimeNano() uint64 {
	if c.OnRead != nil {
		c.OnRead()
	}
	c.Reads++
	noteClockRead(c.ns, 1)
	return c.ns
}

// Sleep: with a scheduler installed the calling task is parked until virtual
// time reaches now+d; without one (single caller) the clock simply advances.
//
//go:norace
func (c *Clock) Sleep(d time.Duration) {
	if c.OnSleep != nil {
		c.OnSleep(d)
		return
	}
	s := active
	tid := -1
	if s != nil {
		tid = s.cur
	}
	if len(c.Sleeps) < cap(c.Sleeps) || s == nil {
		c.Sleeps = append(c.Sleeps, SleepReq{Task: tid, AtNs: c.ns, D: d})
	}
	if d <= 0 {
		return
	}
	if s == nil {
		c.ns += uint64(d)
		return
	}
	s.sleep(uint64(d))
}
