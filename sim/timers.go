package sim

import (
	"sort"
	"time"
)

// TimerQ is a discrete-event timer queue on a virtual Clock. Code under test
// whose time.AfterFunc calls are redirected here (overlay) gets its callbacks
// run by AdvanceMs, one at a time on the caller's goroutine, in (due time,
// seeded choice among timers due at the same instant) order: the simulator, not
// the Go runtime, decides the order of same-instant timers.
type TimerQ struct {
	Clk   *Clock
	Pick  func(n int) int // index among the n timers due at the same instant (registration order); nil = 0
	Fired int
	Ties  int // instants at which more than one timer was due
	seq   uint64
	q     []*simTimer
}

type simTimer struct {
	at  uint64
	seq uint64
	f   func()
}

// Timers is the queue that AfterFunc / TimeNow use; nil = real time (builds and
// properties that do not simulate timers).
var Timers *TimerQ

// AfterFunc replaces time.AfterFunc in overlay-instrumented packages.
func AfterFunc(d time.Duration, f func()) *time.Timer {
	if Timers == nil {
		return time.AfterFunc(d, f)
	}
	if d < 0 {
		d = 0
	}
	q := Timers
	q.seq++
	q.q = append(q.q, &simTimer{at: q.Clk.NowNs() + uint64(d), seq: q.seq, f: f})
	return nil
}

// TimeNow replaces time.Now in overlay-instrumented packages.
func TimeNow() time.Time {
	if Timers == nil {
		return time.Now()
	}
	return time.Unix(0, int64(Timers.Clk.NowNs()))
}

// Pending reports the number of armed timers.
func (q *TimerQ) Pending() int { return len(q.q) }

// AdvanceMs moves the clock forward by ms, firing every timer that becomes due on
// the way at its own instant; after is called after each callback (may be nil).
func (q *TimerQ) AdvanceMs(ms uint64, after func()) {
	target := q.Clk.NowNs() + ms*1e6
	for {
		min := uint64(0)
		found := false
		for _, t := range q.q {
			if t.at <= target && (!found || t.at < min) {
				min, found = t.at, true
			}
		}
		if !found {
			break
		}
		var due []*simTimer
		for _, t := range q.q {
			if t.at == min {
				due = append(due, t)
			}
		}
		sort.Slice(due, func(i, j int) bool { return due[i].seq < due[j].seq })
		i := 0
		if len(due) > 1 {
			q.Ties++
			if q.Pick != nil {
				i = q.Pick(len(due))
				if i < 0 || i >= len(due) {
					i = 0
				}
			}
		}
		t := due[i]
		for k, x := range q.q {
			if x == t {
				q.q = append(q.q[:k], q.q[k+1:]...)
				break
			}
		}
		if min > q.Clk.NowNs() {
			q.Clk.SetNs(min)
		}
		q.Fired++
		t.f()
		if after != nil {
			after()
		}
	}
	if target > q.Clk.NowNs() {
		q.Clk.SetNs(target)
	}
}
