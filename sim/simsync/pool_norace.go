package simsync

import "verif/sim"

// No append/copy here: in race builds those call into runtime helpers that
// carry their own race annotations even inside norace functions.

//go:norace
func (p *Pool) take() *poolItem {
	if !sim.Active() {
		p.mu.Lock()
		defer p.mu.Unlock()
	}
	n := p.n
	i := sim.PoolPick(n)
	if i < 0 || i >= n {
		return nil
	}
	it := p.items[i]
	for j := i; j < n-1; j++ {
		p.items[j] = p.items[j+1]
	}
	p.items[n-1] = nil
	p.n = n - 1
	return it
}

//go:norace
func (p *Pool) put(it *poolItem) {
	if !sim.Active() {
		p.mu.Lock()
		defer p.mu.Unlock()
	}
	if p.n >= poolCap {
		return // a pool may drop objects
	}
	p.items[p.n] = it
	p.n++
}
