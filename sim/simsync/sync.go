// Package simsync mirrors package sync for instrumented sentinel code. With no
// scheduler installed every type behaves exactly like its sync counterpart.
package simsync

import (
	"sync"
	"sync/atomic"
	"unsafe"

	"verif/sim"
)

type (
	WaitGroup = sync.WaitGroup
	Map       = sync.Map
	Cond      = sync.Cond
	Locker    = sync.Locker
)

func NewCond(l Locker) *Cond { return sync.NewCond(l) }

// Mutex keeps the real mutex as its first (only) field: core/stat/base/mutex.go
// CASes the first word through unsafe and that must keep hitting the state word.
type Mutex struct{ m sync.Mutex }

func (m *Mutex) Lock() {
	if !sim.Active() {
		m.m.Lock()
		return
	}
	sim.Acquire(unsafe.Pointer(m), sim.OpLock, m.m.TryLock)
}

func (m *Mutex) TryLock() bool {
	sim.Yield(sim.OpLock)
	return m.m.TryLock()
}

func (m *Mutex) Unlock() {
	m.m.Unlock()
	sim.Released(unsafe.Pointer(m), sim.OpUnlock)
}

// RWMutex: under the scheduler a writer announces itself before it waits for the readers to leave, and from then
// on no new reader is let in until that writer has had the lock - as sync.RWMutex does it (one writer at a time is
// the announced one; the others wait behind it). Without that a read lock taken twice by one caller never meets
// the writer in between that makes it a deadlock. The flag is a plain field read and written inside norace
// functions only: one task runs at a time, and an atomic here would order the callers for the race detector.
type RWMutex struct {
	m    sync.RWMutex
	wann bool
}

//go:norace
func (m *RWMutex) tryAnnounce() bool {
	if m.wann {
		return false
	}
	m.wann = true
	announcedOnes = append(announcedOnes, m)
	return true
}

// announcedOnes: every lock a writer has announced itself on in this run. A run the scheduler aborts (a deadlock
// it has found) leaves its callers where they stood, some of them between the announcement and the lock: the next
// run in this process starts with the flags cleared (ResetAnnounced).
var announcedOnes []*RWMutex

//go:norace
func ResetAnnounced() {
	for _, m := range announcedOnes {
		m.wann = false
	}
	announcedOnes = announcedOnes[:0]
}

//go:norace
func (m *RWMutex) announced() bool { return m.wann }

//go:norace
func (m *RWMutex) clearAnnounce() { m.wann = false }

func (m *RWMutex) Lock() {
	if !sim.Active() {
		m.m.Lock()
		return
	}
	sim.Acquire(unsafe.Pointer(m), sim.OpLock, m.tryAnnounce)
	sim.Acquire(unsafe.Pointer(m), sim.OpLock, m.m.TryLock)
}

func (m *RWMutex) TryLock() bool {
	sim.Yield(sim.OpLock)
	if m.announced() {
		return false
	}
	return m.m.TryLock()
}

func (m *RWMutex) Unlock() {
	m.clearAnnounce()
	m.m.Unlock()
	sim.Released(unsafe.Pointer(m), sim.OpUnlock)
}

func (m *RWMutex) RLock() {
	if !sim.Active() {
		m.m.RLock()
		return
	}
	sim.Acquire(unsafe.Pointer(m), sim.OpRLock, func() bool { return !m.announced() && m.m.TryRLock() })
}

func (m *RWMutex) TryRLock() bool {
	sim.Yield(sim.OpRLock)
	return !m.announced() && m.m.TryRLock()
}

func (m *RWMutex) RUnlock() {
	m.m.RUnlock()
	sim.Released(unsafe.Pointer(m), sim.OpRUnlock)
}

func (m *RWMutex) RLocker() Locker { return (*rlocker)(m) }

type rlocker RWMutex

func (r *rlocker) Lock()   { (*RWMutex)(r).RLock() }
func (r *rlocker) Unlock() { (*RWMutex)(r).RUnlock() }

// Once is built on the shim mutex so that a second caller waiting for the
// first one's f to finish is a blocked task, not a real blocked goroutine.
type Once struct {
	done uint32
	m    Mutex
}

func (o *Once) Do(f func()) {
	sim.Yield(sim.OpOnce)
	if atomic.LoadUint32(&o.done) == 0 {
		o.doSlow(f)
	}
}

func (o *Once) doSlow(f func()) {
	o.m.Lock()
	defer o.m.Unlock()
	if o.done == 0 {
		defer atomic.StoreUint32(&o.done, 1)
		f()
	}
}

// Pool is the simulated allocator (SimPool). The simulator decides which
// pooled object a Get returns. A real mutex guards the list only so that the
// type is also safe when no scheduler is installed; per-object hand-over is
// published through an atomic so that the race detector sees Put→Get of the
// same object as ordered (as the real sync.Pool does) and nothing more.
type Pool struct {
	New func() any

	mu    sync.Mutex
	items [poolCap]*poolItem
	n     int
	reg   uint32
}

const poolCap = 64

type poolItem struct {
	v     any
	stamp uint32
}

// register must not synchronise: an atomic here would order every Get/Put of all callers with each
// other in the race detector's eyes and hide races of the code under test. Plain access in norace code;
// registering twice is harmless.
//
//go:norace
func (p *Pool) register() {
	if p.reg == 0 {
		p.reg = 1
		sim.RegisterPool(p)
	}
}

func (p *Pool) Get() any {
	p.register()
	sim.Yield(sim.OpPool)
	it := p.take()
	if it == nil {
		if p.New != nil {
			return p.New()
		}
		return nil
	}
	atomic.LoadUint32(&it.stamp) // acquire edge from the matching Put
	return it.v
}

func (p *Pool) Put(x any) {
	if x == nil {
		return
	}
	p.register()
	sim.Yield(sim.OpPool)
	it := &poolItem{v: x}
	atomic.StoreUint32(&it.stamp, 1) // release edge
	p.put(it)
}

func (p *Pool) Drain() {
	p.mu.Lock()
	for i := range p.items {
		p.items[i] = nil
	}
	p.n = 0
	p.mu.Unlock()
}
