// Package simfsnotify is a stand-in for github.com/fsnotify/fsnotify with the
// same surface as the one sentinel's file datasource uses. File system
// notifications cannot be driven deterministically through inotify; here the
// simulator delivers (delays, duplicates, coalesces) the events itself.
package simfsnotify

import (
	"errors"
	"sync"
)

type Op uint32

const (
	Create Op = 1 << iota
	Write
	Remove
	Rename
	Chmod
)

type Event struct {
	Name string
	Op   Op
}

type Watcher struct {
	Events chan Event
	Errors chan error

	mu      sync.Mutex
	watched map[string]bool
	// gen: which file under the name the watch is on (a watch is on the inode: see GenOf)
	gen    map[string]int
	closed bool
	// AddErr, when set, makes the next Add calls fail (watch re-establishment faults)
	AddErr int
}

var (
	mu       sync.Mutex
	watchers []*Watcher
	// GenOf, set by the simulator, numbers the files that have carried a name: a watch is registered on the
	// file that carries the name at that moment and stays on it when another file takes the name over.
	GenOf func(name string) int
	// OnNewWatcher runs inside NewWatcher, OnAdded right after a watch was registered: the simulator's
	// chance to let something happen to the file between the steps of a datasource's start-up.
	OnNewWatcher func()
	OnAdded      func()
)

// NewWatcher creates a watcher and registers it so that the simulator can find it.
func NewWatcher() (*Watcher, error) {
	w := &Watcher{Events: make(chan Event), Errors: make(chan error), watched: map[string]bool{}, gen: map[string]int{}}
	mu.Lock()
	watchers = append(watchers, w)
	hook := OnNewWatcher
	mu.Unlock()
	if hook != nil {
		hook()
	}
	return w, nil
}

// Last returns the most recently created watcher.
func Last() *Watcher {
	mu.Lock()
	defer mu.Unlock()
	if len(watchers) == 0 {
		return nil
	}
	return watchers[len(watchers)-1]
}

// Reset forgets all watchers (between simulated runs).
func Reset() {
	mu.Lock()
	watchers = nil
	OnNewWatcher, OnAdded, GenOf = nil, nil, nil
	mu.Unlock()
}

func (w *Watcher) Add(name string) error {
	w.mu.Lock()
	defer w.mu.Unlock()
	if w.closed {
		return errors.New("watcher closed")
	}
	if w.AddErr > 0 {
		w.AddErr--
		return errors.New("simulated: no such file or directory")
	}
	mu.Lock()
	hook, genOf := OnAdded, GenOf
	mu.Unlock()
	if !w.watched[name] && genOf != nil {
		// (like fsnotify 1.4.7: Add for a name it already has an entry for does not move the entry to another file)
		w.gen[name] = genOf(name)
	}
	w.watched[name] = true
	if hook != nil {
		w.mu.Unlock()
		hook()
		w.mu.Lock()
	}
	return nil
}

func (w *Watcher) Remove(name string) error {
	w.mu.Lock()
	defer w.mu.Unlock()
	if !w.watched[name] {
		return errors.New("can't remove non-existent watch")
	}
	delete(w.watched, name)
	delete(w.gen, name)
	return nil
}

// Drop is the simulator's: the kernel drops a watch when the watched inode is deleted (IN_DELETE_SELF), and the
// watcher library forgets the path with it.
func (w *Watcher) Drop(name string) {
	w.mu.Lock()
	delete(w.watched, name)
	delete(w.gen, name)
	w.mu.Unlock()
}

// WatchGen reports which file under the name the watch is on.
func (w *Watcher) WatchGen(name string) (int, bool) {
	w.mu.Lock()
	defer w.mu.Unlock()
	g, ok := w.gen[name]
	return g, ok && w.watched[name] && !w.closed
}

func (w *Watcher) Close() error {
	w.mu.Lock()
	defer w.mu.Unlock()
	w.closed = true
	return nil
}

func (w *Watcher) Watching(name string) bool {
	w.mu.Lock()
	defer w.mu.Unlock()
	return w.watched[name] && !w.closed
}

func (w *Watcher) Closed() bool {
	w.mu.Lock()
	defer w.mu.Unlock()
	return w.closed
}
