// Package simfsnotify is a stand-in for github.com/fsnotify/fsnotify with the
// same surface as the one sentinel's file datasource uses. File system
// notifications cannot be driven deterministically through inotify; here the
// simulator delivers (delays, duplicates, coalesces) the events itself.
package simfsnotify

import (
	"errors"
	"sync"
)

type Op uint32

const (
	Create Op = 1 << iota
	Write
	Remove
	Rename
	Chmod
)

type Event struct {
	Name string
	Op   Op
}

type Watcher struct {
	Events chan Event
	Errors chan error

	mu      sync.Mutex
	watched map[string]bool
	closed  bool
	// AddErr, when set, makes the next Add calls fail (watch re-establishment faults)
	AddErr int
}

var (
	mu       sync.Mutex
	watchers []*Watcher
	// OnNewWatcher runs inside NewWatcher, OnAdded right after a watch was registered: the simulator's
	// chance to let something happen to the file between the steps of a datasource's start-up.
	OnNewWatcher func()
	OnAdded      func()
)

// NewWatcher creates a watcher and registers it so that the simulator can find it.
func NewWatcher() (*Watcher, error) {
	w := &Watcher{Events: make(chan Event), Errors: make(chan error), watched: map[string]bool{}}
	mu.Lock()
	watchers = append(watchers, w)
	hook := OnNewWatcher
	mu.Unlock()
	if hook != nil {
		hook()
	}
	return w, nil
}

// Last returns the most recently created watcher.
func Last() *Watcher {
	mu.Lock()
	defer mu.Unlock()
	if len(watchers) == 0 {
		return nil
	}
	return watchers[len(watchers)-1]
}

// Reset forgets all watchers (between simulated runs).
func Reset() {
	mu.Lock()
	watchers = nil
	OnNewWatcher, OnAdded = nil, nil
	mu.Unlock()
}

func (w *Watcher) Add(name string) error {
	w.mu.Lock()
	defer w.mu.Unlock()
	if w.closed {
		return errors.New("watcher closed")
	}
	if w.AddErr > 0 {
		w.AddErr--
		return errors.New("simulated: no such file or directory")
	}
	w.watched[name] = true
	mu.Lock()
	hook := OnAdded
	mu.Unlock()
	if hook != nil {
		w.mu.Unlock()
		hook()
		w.mu.Lock()
	}
	return nil
}

func (w *Watcher) Remove(name string) error {
	w.mu.Lock()
	defer w.mu.Unlock()
	if !w.watched[name] {
		return errors.New("can't remove non-existent watch")
	}
	delete(w.watched, name)
	return nil
}

// Drop is the simulator's: the kernel drops a watch when the watched inode is deleted (IN_DELETE_SELF), and the
// watcher library forgets the path with it.
func (w *Watcher) Drop(name string) {
	w.mu.Lock()
	delete(w.watched, name)
	w.mu.Unlock()
}

func (w *Watcher) Close() error {
	w.mu.Lock()
	defer w.mu.Unlock()
	w.closed = true
	return nil
}

func (w *Watcher) Watching(name string) bool {
	w.mu.Lock()
	defer w.mu.Unlock()
	return w.watched[name] && !w.closed
}

func (w *Watcher) Closed() bool {
	w.mu.Lock()
	defer w.mu.Unlock()
	return w.closed
}
