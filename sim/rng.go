// Package sim is the deterministic simulator core: PRNG, virtual clock,
// cooperative scheduler and pool policy. It must not import sentinel packages
// (instrumented sentinel code imports it).
package sim

// Rng is a splitmix64 generator. One integer decides everything: every run
// derives independent streams from (seed, property, run index, stream id).
type Rng struct{ s uint64 }

func mix64(z uint64) uint64 {
	z = (z ^ (z >> 30)) * 0xbf58476d1ce4e5b9
	z = (z ^ (z >> 27)) * 0x94d049bb133111eb
	return z ^ (z >> 31)
}

// NewRng derives a stream from the given key parts.
func NewRng(parts ...uint64) *Rng {
	s := uint64(0x9e3779b97f4a7c15)
	for _, p := range parts {
		s = mix64(s ^ mix64(p+0x9e3779b97f4a7c15))
	}
	return &Rng{s: s}
}

//go:norace
func (r *Rng) Uint64() uint64 {
	r.s += 0x9e3779b97f4a7c15
	return mix64(r.s)
}

// Intn returns a value in [0,n). n<=0 returns 0.
//
//go:norace
func (r *Rng) Intn(n int) int {
	if n <= 1 {
		return 0
	}
	return int(r.Uint64() % uint64(n))
}

// Range returns a value in [lo,hi] inclusive.
func (r *Rng) Range(lo, hi int) int {
	if hi <= lo {
		return lo
	}
	return lo + r.Intn(hi-lo+1)
}

func (r *Rng) U64Range(lo, hi uint64) uint64 {
	if hi <= lo {
		return lo
	}
	return lo + r.Uint64()%(hi-lo+1)
}

//go:norace
func (r *Rng) Float() float64 { return float64(r.Uint64()>>11) / float64(1<<53) }

// Chance returns true with probability p.
//
//go:norace
func (r *Rng) Chance(p float64) bool { return r.Float() < p }

// Pick returns a random element index weighted by w.
func (r *Rng) Weighted(w []int) int {
	t := 0
	for _, x := range w {
		t += x
	}
	if t <= 0 {
		return 0
	}
	k := r.Intn(t)
	for i, x := range w {
		if k < x {
			return i
		}
		k -= x
	}
	return len(w) - 1
}

// Fork derives an independent child stream.
func (r *Rng) Fork(id uint64) *Rng { return NewRng(r.Uint64(), id) }

// HashString is FNV-1a, used for property ids and trace hashes.
func HashString(s string) uint64 {
	h := uint64(14695981039346656037)
	for i := 0; i < len(s); i++ {
		h ^= uint64(s[i])
		h *= 1099511628211
	}
	return h
}

// HashAdd folds v into h.
//
//go:norace
func HashAdd(h, v uint64) uint64 { return mix64(h ^ (v + 0x9e3779b97f4a7c15 + (h << 6) + (h >> 2))) }
