package sim

import (
	"runtime"
	"sync"
	"unsafe"
)

// Yield-point kinds (recorded in the trace hash; used for replay-divergence
// detection and as the measure of "distinct interleavings").
const (
	OpLoad uint8 = iota + 1
	OpStore
	OpAdd
	OpCAS
	OpSwap
	OpLock
	OpUnlock
	OpRLock
	OpRUnlock
	OpSpin
	OpValLoad
	OpValStore
	OpPool
	OpUser
	OpOnce
	OpPostLoad
)

// Policy kinds.
const (
	PolWalk = iota
	PolPCT
)

const (
	ChoiceTick    = -1
	ChoiceDefault = -2
)

type Task struct {
	ID        int
	fn        func()
	done      bool
	blockedOn unsafe.Pointer
	sleeping  bool
	wakeAtNs  uint64
	spinning  bool
	exiting   bool
	prio      int
	h         handoff

	// ClockReads: clock values this task received, with the global event
	// sequence number at which it received them (history oracles use the
	// value the caller actually saw, not the time of the API call).
	ClockReads []ClockRead
	Steps      int
	Spins      int
}

type ClockRead struct {
	Seq  uint64
	Ns   uint64
	Kind uint8 // 0 CurrentTimeMillis, 1 CurrentTimeNano, 2 Now
}

// Config of one scheduled run.
type SchedConfig struct {
	Policy     int
	StayProb   float64  // walk: probability of staying with the current task
	TickProb   float64  // probability of taking a tick at a yield
	Ticks      []uint64 // tick plan, nanoseconds, consumed in order
	PCTDepth   int
	EstSteps   int
	MaxSteps   int
	Replay     []int // literal schedule (nil = draw from rng)
	CanTick    func(deltaNs uint64) bool
	ForcedTail bool
	// PostLoad adds a scheduling point AFTER every atomic load, so that the plain
	// code that follows a check (check-then-act on unsynchronised fields) can be
	// separated from the check by other tasks.
	PostLoad bool
}

type Sched struct {
	tasks []*Task
	cur   int
	rng   *Rng
	cfg   SchedConfig
	clock *Clock

	Schedule  []int // recorded decisions (task id or ChoiceTick)
	schedN    int
	replayPos int
	tickPos   int
	changePts []int
	lowPrio   int

	Steps      int
	TraceHash  uint64
	Aborted    bool
	AbortWhy   string
	Diverged   bool
	TicksFired int
	Switches   int
	seq        uint64

	driver handoff
	// wg orders the end of every task before the driver continues after Run (in race builds the
	// hand-off itself creates no happens-before edge, on purpose).
	wg sync.WaitGroup
}

var active *Sched

// Active reports whether a scheduler is installed (shims are pass-through when not).
//
//go:norace
func Active() bool { return active != nil }

//go:norace
func CurTask() int {
	if active == nil {
		return -1
	}
	return active.cur
}

// global event sequence (also valid without a scheduler)
var gseq uint64

//go:norace
func NextSeq() uint64 { gseq++; return gseq }

//go:norace
func ResetSeq() { gseq = 0 }

//go:norace
func noteClockRead(ns uint64, kind uint8) {
	s := active
	if s == nil {
		return
	}
	t := s.tasks[s.cur]
	if len(t.ClockReads) < cap(t.ClockReads) {
		gseq++
		t.ClockReads = append(t.ClockReads, ClockRead{Seq: gseq, Ns: ns, Kind: kind})
	}
}

func NewSched(rng *Rng, clock *Clock, cfg SchedConfig) *Sched {
	if cfg.MaxSteps <= 0 {
		cfg.MaxSteps = 20000
	}
	if cfg.EstSteps <= 0 {
		cfg.EstSteps = 200
	}
	s := &Sched{rng: rng, cfg: cfg, clock: clock}
	s.Schedule = make([]int, cfg.MaxSteps*2+64)
	return s
}

// Go registers a task. Must be called before Run.
func (s *Sched) Go(fn func()) *Task {
	t := &Task{ID: len(s.tasks), fn: fn}
	t.ClockReads = make([]ClockRead, 0, 1024)
	t.h.init()
	s.wg.Add(1)
	s.tasks = append(s.tasks, t)
	return t
}

func (s *Sched) Tasks() []*Task { return s.tasks }

// Run executes all tasks under the scheduler and returns when every task has
// finished or the run was aborted.
func (s *Sched) Run() {
	n := len(s.tasks)
	if n == 0 {
		return
	}
	// PCT priorities
	perm := make([]int, n)
	for i := range perm {
		perm[i] = i
	}
	for i := n - 1; i > 0; i-- {
		j := s.rng.Intn(i + 1)
		perm[i], perm[j] = perm[j], perm[i]
	}
	for i, t := range s.tasks {
		t.prio = perm[i] + 1000
	}
	s.lowPrio = 999
	if s.cfg.Policy == PolPCT {
		for i := 0; i < s.cfg.PCTDepth; i++ {
			s.changePts = append(s.changePts, 1+s.rng.Intn(s.cfg.EstSteps))
		}
	}
	s.driver.init()
	active = s
	for _, t := range s.tasks {
		t := t
		go s.taskMain(t)
	}
	first := s.decide(nil)
	if first == nil {
		active = nil
		return
	}
	s.cur = first.ID
	first.h.unpark()
	s.driver.park()
	s.wg.Wait()
	active = nil
}

//go:norace
func (s *Sched) taskMain(t *Task) {
	defer s.wg.Done()
	t.h.park()
	defer s.taskExit(t)
	if s.Aborted {
		return
	}
	t.fn()
}

//go:norace
func (s *Sched) taskExit(t *Task) {
	// Runs on normal return, on Goexit and on a panic that escaped fn (the
	// harness wraps fn with its own recover, so that is not expected).
	t.done = true
	t.exiting = true
	next := s.pickAny()
	if next == nil {
		s.driver.unpark()
		return
	}
	s.cur = next.ID
	next.h.unpark()
}

//go:norace
func (s *Sched) abort(why string) {
	if !s.Aborted {
		s.Aborted = true
		s.AbortWhy = why
	}
}

// pickAny is used when the current task cannot continue (finished): any other
// not-done task, chosen by the normal decision procedure; nil when all done.
//
//go:norace
func (s *Sched) pickAny() *Task {
	if s.Aborted {
		for _, t := range s.tasks {
			if !t.done {
				return t
			}
		}
		return nil
	}
	return s.decide(nil)
}

//go:norace
func (s *Sched) runnable(t *Task) bool {
	return !t.done && t.blockedOn == nil && !t.sleeping
}

//go:norace
func (s *Sched) record(c int) {
	if s.schedN < len(s.Schedule) {
		s.Schedule[s.schedN] = c
		s.schedN++
	}
}

// Recorded returns the literal schedule of this run.
func (s *Sched) Recorded() []int { return append([]int(nil), s.Schedule[:s.schedN]...) }

//go:norace
func (s *Sched) tryTick() bool {
	if s.tickPos >= len(s.cfg.Ticks) {
		return false
	}
	d := s.cfg.Ticks[s.tickPos]
	if s.cfg.CanTick != nil && !s.cfg.CanTick(d) {
		return false
	}
	s.tickPos++
	s.clock.ns += d
	s.TicksFired++
	s.wakeSleepers()
	return true
}

//go:norace
func (s *Sched) wakeSleepers() {
	for _, t := range s.tasks {
		if t.sleeping && t.wakeAtNs <= s.clock.ns {
			t.sleeping = false
		}
	}
}

// decide picks the next task to run. cur is the task at the yield point (nil
// if it cannot continue). It may fire ticks. Returns nil when no task is left;
// sets Aborted on deadlock.
//
//go:norace
func (s *Sched) decide(cur *Task) *Task {
	for guard := 0; ; guard++ {
		// ticks
		if s.cfg.Replay != nil {
			for s.replayPos < len(s.cfg.Replay) && s.cfg.Replay[s.replayPos] == ChoiceTick {
				s.replayPos++
				if s.tryTick() {
					s.record(ChoiceTick)
				}
			}
		} else if s.cfg.TickProb > 0 && s.tickPos < len(s.cfg.Ticks) {
			for k := 0; k < 3 && s.rng.Chance(s.cfg.TickProb); k++ {
				if !s.tryTick() {
					break
				}
				s.record(ChoiceTick)
			}
		}
		// candidates
		var cands [64]*Task
		nc := 0
		nonSpin := 0
		for _, t := range s.tasks {
			if s.runnable(t) && nc < len(cands) {
				cands[nc] = t
				nc++
				if !t.spinning {
					nonSpin++
				}
			}
		}
		if nc == 0 {
			// nobody runnable: advance virtual time to the earliest sleeper
			var first *Task
			for _, t := range s.tasks {
				if !t.done && t.sleeping && (first == nil || t.wakeAtNs < first.wakeAtNs) {
					first = t
				}
			}
			if first != nil {
				if first.wakeAtNs > s.clock.ns {
					s.clock.ns = first.wakeAtNs
				}
				s.wakeSleepers()
				continue
			}
			alive := false
			for _, t := range s.tasks {
				if !t.done {
					alive = true
				}
			}
			if alive {
				s.abort("deadlock: every live task is blocked on a lock")
				for _, t := range s.tasks {
					if !t.done {
						return t
					}
				}
			}
			return nil
		}
		// a spinning current task must give way if anyone else can run
		if cur != nil && cur.spinning && nc > 1 {
			k := 0
			for i := 0; i < nc; i++ {
				if cands[i] != cur {
					cands[k] = cands[i]
					k++
				}
			}
			nc = k
		}
		var next *Task
		if s.cfg.Replay != nil {
			c := ChoiceDefault
			if s.replayPos < len(s.cfg.Replay) {
				c = s.cfg.Replay[s.replayPos]
				s.replayPos++
			}
			if c >= 0 {
				for i := 0; i < nc; i++ {
					if cands[i].ID == c {
						next = cands[i]
					}
				}
				if next == nil {
					s.Diverged = true
				}
			}
			if next == nil {
				// default: stay if possible, else lowest id
				for i := 0; i < nc; i++ {
					if cands[i] == cur {
						next = cur
					}
				}
				if next == nil {
					next = cands[0]
				}
			}
		} else if s.cfg.Policy == PolPCT {
			for _, cp := range s.changePts {
				if cp == s.Steps && cur != nil {
					cur.prio = s.lowPrio
					s.lowPrio--
				}
			}
			for i := 0; i < nc; i++ {
				if next == nil || cands[i].prio > next.prio {
					next = cands[i]
				}
			}
		} else {
			stay := false
			if cur != nil && !cur.spinning && s.runnable(cur) && s.rng.Chance(s.cfg.StayProb) {
				stay = true
			}
			if stay {
				next = cur
			} else {
				next = cands[s.rng.Intn(nc)]
			}
		}
		s.record(next.ID)
		return next
	}
}

//go:norace
func (s *Sched) switchTo(from, to *Task) {
	if from == to {
		return
	}
	s.Switches++
	s.cur = to.ID
	to.h.unpark()
	from.h.park()
	if s.Aborted && !from.exiting {
		from.exiting = true
		runtime.Goexit()
	}
}

//go:norace
func (s *Sched) curTask() *Task { return s.tasks[s.cur] }

//go:norace
func (s *Sched) step(t *Task, op uint8) {
	s.Steps++
	t.Steps++
	s.TraceHash = HashAdd(s.TraceHash, uint64(t.ID)<<8|uint64(op))
	if StepLog != nil {
		StepLog(s.Steps, t.ID, op)
	}
	if s.Steps >= s.cfg.MaxSteps && !s.Aborted {
		s.abort("step budget exhausted")
	}
	if s.Aborted && !t.exiting {
		t.exiting = true
		runtime.Goexit()
	}
}

// StepLog, when set (debugging aid of the determinism self-test: VERIF_STEPLOG), is told every scheduling point.
var StepLog func(step int, task int, op uint8)

// Yield is a scheduling point placed before every atomic / lock operation of
// the instrumented code.
//
//go:norace
func Yield(op uint8) {
	s := active
	if s == nil {
		return
	}
	t := s.curTask()
	if t.exiting {
		return
	}
	s.step(t, op)
	t.spinning = false
	next := s.decide(t)
	if next != nil && next != t {
		s.switchTo(t, next)
	}
}

// AfterLoad is called by the instrumented atomic loads after the value was read.
//
//go:norace
func AfterLoad() {
	s := active
	if s == nil || !s.cfg.PostLoad {
		return
	}
	Yield(OpPostLoad)
}

// Spin replaces runtime.Gosched in instrumented code: the caller declares that
// it is waiting for someone else.
//
//go:norace
func Spin() {
	s := active
	if s == nil {
		// single caller: nobody else can change what the caller is waiting for
		soloSpins++
		if soloSpins > 200000 {
			soloSpins = 0
			spinOverflow = true
			panic("verif: a single caller spun 200000 times waiting for a change nobody can make (livelock)")
		}
		runtime.Gosched()
		return
	}
	t := s.curTask()
	if t.exiting {
		return
	}
	s.step(t, OpSpin)
	t.spinning = true
	t.Spins++
	if s.cfg.Policy == PolPCT && s.cfg.Replay == nil {
		// PCT: a task that declares it is waiting drops below everyone else,
		// otherwise two high-priority spinners starve the lock holder forever.
		t.prio = s.lowPrio
		s.lowPrio--
	}
	next := s.decide(t)
	t.spinning = false
	if next != nil && next != t {
		s.switchTo(t, next)
	}
}

// Acquire runs the lock loop of a shim mutex: yield, try, block.
//
//go:norace
func Acquire(key unsafe.Pointer, op uint8, try func() bool) {
	s := active
	if s == nil {
		panic("sim.Acquire without scheduler")
	}
	t := s.curTask()
	for {
		if t.exiting {
			// run is being torn down: do not block; the state is discarded.
			try()
			return
		}
		s.step(t, op)
		next := s.decide(t)
		if next != nil && next != t {
			s.switchTo(t, next)
		}
		if try() {
			return
		}
		t.blockedOn = key
		next = s.decide(nil)
		if next == nil {
			return
		}
		if next == t {
			// deadlock abort picked us
			t.blockedOn = nil
			if s.Aborted && !t.exiting {
				t.exiting = true
				runtime.Goexit()
			}
			continue
		}
		s.switchTo(t, next)
	}
}

// Released wakes every task blocked on key and yields.
//
//go:norace
func Released(key unsafe.Pointer, op uint8) {
	s := active
	if s == nil {
		return
	}
	for _, t := range s.tasks {
		if t.blockedOn == key {
			t.blockedOn = nil
		}
	}
	Yield(op)
}

//go:norace
func (s *Sched) sleep(dNs uint64) {
	t := s.curTask()
	if t.exiting {
		return
	}
	s.step(t, OpUser)
	t.sleeping = true
	t.wakeAtNs = s.clock.ns + dNs
	next := s.decide(nil)
	if next == nil {
		return
	}
	if next != t {
		s.switchTo(t, next)
	}
	t.sleeping = false
}

// TicksLeft reports how many planned ticks were not consumed.
func (s *Sched) TicksLeft() int { return len(s.cfg.Ticks) - s.tickPos }

var (
	soloSpins    int
	spinOverflow bool
)

// TakeSpinOverflow reports (and clears) whether a single caller hit the spin cap.
func TakeSpinOverflow() bool {
	v := spinOverflow
	spinOverflow = false
	soloSpins = 0
	return v
}
