//go:build !race

package sim

// Normal builds: channel hand-off (gives happens-before, which is what we want
// when the race detector is not watching).
type handoff struct{ c chan struct{} }

func (h *handoff) init()   { h.c = make(chan struct{}, 1) }
func (h *handoff) park()   { <-h.c }
func (h *handoff) unpark() { h.c <- struct{}{} }

const RaceBuild = false
