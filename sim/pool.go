package sim

// PoolCtl is the allocator seam: which previously-Put object a Get returns, or
// whether the Get "misses" and allocates. Every behaviour here is one the real
// sync.Pool may exhibit (it makes no ordering or retention promise).
type PoolCtl struct {
	Mode     int     // 0 lifo, 1 fifo, 2 random
	MissRate float64 // probability that a Get ignores the pooled objects
	Rng      *Rng
	Replay   []int // literal decisions (index, or -1 miss); nil = draw
	pos      int
	Log      []int
	Gets     int
	Reuses   int
}

var poolCtl *PoolCtl

//go:norace
func SetPoolCtl(p *PoolCtl) {
	if p != nil && p.Log == nil {
		p.Log = make([]int, 0, 4096)
	}
	poolCtl = p
}

//go:norace
func GetPoolCtl() *PoolCtl { return poolCtl }

// PoolPick returns the index of the pooled object to hand out, or -1 to allocate.
//
//go:norace
func PoolPick(n int) int {
	p := poolCtl
	if p == nil {
		if n == 0 {
			return -1
		}
		return n - 1 // deterministic LIFO when no policy is installed
	}
	p.Gets++
	c := -1
	if p.Replay != nil {
		if p.pos < len(p.Replay) {
			c = p.Replay[p.pos]
			p.pos++
			if c >= n {
				c = n - 1
			}
		} else if n > 0 {
			c = n - 1
		}
	} else if n > 0 && !(p.MissRate > 0 && p.Rng.Chance(p.MissRate)) {
		switch p.Mode {
		case 0:
			c = n - 1
		case 1:
			c = 0
		default:
			c = p.Rng.Intn(n)
		}
	}
	if c >= 0 {
		p.Reuses++
	}
	if len(p.Log) < cap(p.Log) {
		p.Log = append(p.Log, c)
	}
	return c
}

// registry of shim pools so the harness can empty them between runs (simulator state: norace, fixed size)
var (
	pools  [256]interface{ Drain() }
	npools int
)

//go:norace
func RegisterPool(p interface{ Drain() }) {
	if npools < len(pools) {
		pools[npools] = p
		npools++
	}
}

//go:norace
func DrainPools() {
	for i := 0; i < npools; i++ {
		pools[i].Drain()
	}
}
