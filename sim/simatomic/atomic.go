// Package simatomic mirrors sync/atomic for instrumented sentinel code: every
// operation is preceded by a scheduler yield point. With no scheduler
// installed each call costs one nil check.
package simatomic

import (
	ra "sync/atomic"
	"unsafe"

	"verif/sim"
)

func AddInt32(addr *int32, delta int32) int32 { sim.Yield(sim.OpAdd); return ra.AddInt32(addr, delta) }
func AddInt64(addr *int64, delta int64) int64 { sim.Yield(sim.OpAdd); return ra.AddInt64(addr, delta) }
func AddUint32(addr *uint32, delta uint32) uint32 {
	sim.Yield(sim.OpAdd)
	return ra.AddUint32(addr, delta)
}
func AddUint64(addr *uint64, delta uint64) uint64 {
	sim.Yield(sim.OpAdd)
	return ra.AddUint64(addr, delta)
}
func AddUintptr(addr *uintptr, delta uintptr) uintptr {
	sim.Yield(sim.OpAdd)
	return ra.AddUintptr(addr, delta)
}

func AndInt32(addr *int32, mask int32) int32 { sim.Yield(sim.OpAdd); return ra.AndInt32(addr, mask) }
func AndInt64(addr *int64, mask int64) int64 { sim.Yield(sim.OpAdd); return ra.AndInt64(addr, mask) }
func AndUint32(addr *uint32, mask uint32) uint32 {
	sim.Yield(sim.OpAdd)
	return ra.AndUint32(addr, mask)
}
func AndUint64(addr *uint64, mask uint64) uint64 {
	sim.Yield(sim.OpAdd)
	return ra.AndUint64(addr, mask)
}
func OrInt32(addr *int32, mask int32) int32     { sim.Yield(sim.OpAdd); return ra.OrInt32(addr, mask) }
func OrInt64(addr *int64, mask int64) int64     { sim.Yield(sim.OpAdd); return ra.OrInt64(addr, mask) }
func OrUint32(addr *uint32, mask uint32) uint32 { sim.Yield(sim.OpAdd); return ra.OrUint32(addr, mask) }
func OrUint64(addr *uint64, mask uint64) uint64 { sim.Yield(sim.OpAdd); return ra.OrUint64(addr, mask) }

func CompareAndSwapInt32(addr *int32, old, new int32) bool {
	sim.Yield(sim.OpCAS)
	return ra.CompareAndSwapInt32(addr, old, new)
}
func CompareAndSwapInt64(addr *int64, old, new int64) bool {
	sim.Yield(sim.OpCAS)
	return ra.CompareAndSwapInt64(addr, old, new)
}
func CompareAndSwapUint32(addr *uint32, old, new uint32) bool {
	sim.Yield(sim.OpCAS)
	return ra.CompareAndSwapUint32(addr, old, new)
}
func CompareAndSwapUint64(addr *uint64, old, new uint64) bool {
	sim.Yield(sim.OpCAS)
	return ra.CompareAndSwapUint64(addr, old, new)
}
func CompareAndSwapUintptr(addr *uintptr, old, new uintptr) bool {
	sim.Yield(sim.OpCAS)
	return ra.CompareAndSwapUintptr(addr, old, new)
}
func CompareAndSwapPointer(addr *unsafe.Pointer, old, new unsafe.Pointer) bool {
	sim.Yield(sim.OpCAS)
	return ra.CompareAndSwapPointer(addr, old, new)
}

func LoadInt32(addr *int32) int32 {
	sim.Yield(sim.OpLoad)
	v := ra.LoadInt32(addr)
	sim.AfterLoad()
	return v
}
func LoadInt64(addr *int64) int64 {
	sim.Yield(sim.OpLoad)
	v := ra.LoadInt64(addr)
	sim.AfterLoad()
	return v
}
func LoadUint32(addr *uint32) uint32 {
	sim.Yield(sim.OpLoad)
	v := ra.LoadUint32(addr)
	sim.AfterLoad()
	return v
}
func LoadUint64(addr *uint64) uint64 {
	sim.Yield(sim.OpLoad)
	v := ra.LoadUint64(addr)
	sim.AfterLoad()
	return v
}
func LoadUintptr(addr *uintptr) uintptr {
	sim.Yield(sim.OpLoad)
	v := ra.LoadUintptr(addr)
	sim.AfterLoad()
	return v
}
func LoadPointer(addr *unsafe.Pointer) unsafe.Pointer {
	sim.Yield(sim.OpLoad)
	v := ra.LoadPointer(addr)
	sim.AfterLoad()
	return v
}

func StoreInt32(addr *int32, val int32)       { sim.Yield(sim.OpStore); ra.StoreInt32(addr, val) }
func StoreInt64(addr *int64, val int64)       { sim.Yield(sim.OpStore); ra.StoreInt64(addr, val) }
func StoreUint32(addr *uint32, val uint32)    { sim.Yield(sim.OpStore); ra.StoreUint32(addr, val) }
func StoreUint64(addr *uint64, val uint64)    { sim.Yield(sim.OpStore); ra.StoreUint64(addr, val) }
func StoreUintptr(addr *uintptr, val uintptr) { sim.Yield(sim.OpStore); ra.StoreUintptr(addr, val) }
func StorePointer(addr *unsafe.Pointer, val unsafe.Pointer) {
	sim.Yield(sim.OpStore)
	ra.StorePointer(addr, val)
}

func SwapInt32(addr *int32, new int32) int32 { sim.Yield(sim.OpSwap); return ra.SwapInt32(addr, new) }
func SwapInt64(addr *int64, new int64) int64 { sim.Yield(sim.OpSwap); return ra.SwapInt64(addr, new) }
func SwapUint32(addr *uint32, new uint32) uint32 {
	sim.Yield(sim.OpSwap)
	return ra.SwapUint32(addr, new)
}
func SwapUint64(addr *uint64, new uint64) uint64 {
	sim.Yield(sim.OpSwap)
	return ra.SwapUint64(addr, new)
}
func SwapUintptr(addr *uintptr, new uintptr) uintptr {
	sim.Yield(sim.OpSwap)
	return ra.SwapUintptr(addr, new)
}
func SwapPointer(addr *unsafe.Pointer, new unsafe.Pointer) unsafe.Pointer {
	sim.Yield(sim.OpSwap)
	return ra.SwapPointer(addr, new)
}

// Value mirrors atomic.Value (zero value usable, composite literal Value{} valid).
type Value struct{ v ra.Value }

func (v *Value) Load() any {
	sim.Yield(sim.OpValLoad)
	r := v.v.Load()
	sim.AfterLoad()
	return r
}
func (v *Value) Store(val any)    { sim.Yield(sim.OpValStore); v.v.Store(val) }
func (v *Value) Swap(new any) any { sim.Yield(sim.OpSwap); return v.v.Swap(new) }
func (v *Value) CompareAndSwap(old, new any) bool {
	sim.Yield(sim.OpCAS)
	return v.v.CompareAndSwap(old, new)
}

// Typed atomics: wrappers with the same method sets.
type Int32 struct{ v ra.Int32 }

func (x *Int32) Load() int32 {
	sim.Yield(sim.OpLoad)
	r := x.v.Load()
	sim.AfterLoad()
	return r
}
func (x *Int32) Store(val int32)      { sim.Yield(sim.OpStore); x.v.Store(val) }
func (x *Int32) Swap(new int32) int32 { sim.Yield(sim.OpSwap); return x.v.Swap(new) }
func (x *Int32) Add(d int32) int32    { sim.Yield(sim.OpAdd); return x.v.Add(d) }
func (x *Int32) CompareAndSwap(old, new int32) bool {
	sim.Yield(sim.OpCAS)
	return x.v.CompareAndSwap(old, new)
}

type Int64 struct{ v ra.Int64 }

func (x *Int64) Load() int64 {
	sim.Yield(sim.OpLoad)
	r := x.v.Load()
	sim.AfterLoad()
	return r
}
func (x *Int64) Store(val int64)      { sim.Yield(sim.OpStore); x.v.Store(val) }
func (x *Int64) Swap(new int64) int64 { sim.Yield(sim.OpSwap); return x.v.Swap(new) }
func (x *Int64) Add(d int64) int64    { sim.Yield(sim.OpAdd); return x.v.Add(d) }
func (x *Int64) CompareAndSwap(old, new int64) bool {
	sim.Yield(sim.OpCAS)
	return x.v.CompareAndSwap(old, new)
}

type Uint32 struct{ v ra.Uint32 }

func (x *Uint32) Load() uint32 {
	sim.Yield(sim.OpLoad)
	r := x.v.Load()
	sim.AfterLoad()
	return r
}
func (x *Uint32) Store(val uint32)       { sim.Yield(sim.OpStore); x.v.Store(val) }
func (x *Uint32) Swap(new uint32) uint32 { sim.Yield(sim.OpSwap); return x.v.Swap(new) }
func (x *Uint32) Add(d uint32) uint32    { sim.Yield(sim.OpAdd); return x.v.Add(d) }
func (x *Uint32) CompareAndSwap(old, new uint32) bool {
	sim.Yield(sim.OpCAS)
	return x.v.CompareAndSwap(old, new)
}

type Uint64 struct{ v ra.Uint64 }

func (x *Uint64) Load() uint64 {
	sim.Yield(sim.OpLoad)
	r := x.v.Load()
	sim.AfterLoad()
	return r
}
func (x *Uint64) Store(val uint64)       { sim.Yield(sim.OpStore); x.v.Store(val) }
func (x *Uint64) Swap(new uint64) uint64 { sim.Yield(sim.OpSwap); return x.v.Swap(new) }
func (x *Uint64) Add(d uint64) uint64    { sim.Yield(sim.OpAdd); return x.v.Add(d) }
func (x *Uint64) CompareAndSwap(old, new uint64) bool {
	sim.Yield(sim.OpCAS)
	return x.v.CompareAndSwap(old, new)
}

type Uintptr struct{ v ra.Uintptr }

func (x *Uintptr) Load() uintptr {
	sim.Yield(sim.OpLoad)
	r := x.v.Load()
	sim.AfterLoad()
	return r
}
func (x *Uintptr) Store(val uintptr)        { sim.Yield(sim.OpStore); x.v.Store(val) }
func (x *Uintptr) Swap(new uintptr) uintptr { sim.Yield(sim.OpSwap); return x.v.Swap(new) }
func (x *Uintptr) Add(d uintptr) uintptr    { sim.Yield(sim.OpAdd); return x.v.Add(d) }
func (x *Uintptr) CompareAndSwap(old, new uintptr) bool {
	sim.Yield(sim.OpCAS)
	return x.v.CompareAndSwap(old, new)
}

type Bool struct{ v ra.Bool }

func (x *Bool) Load() bool {
	sim.Yield(sim.OpLoad)
	r := x.v.Load()
	sim.AfterLoad()
	return r
}
func (x *Bool) Store(val bool)     { sim.Yield(sim.OpStore); x.v.Store(val) }
func (x *Bool) Swap(new bool) bool { sim.Yield(sim.OpSwap); return x.v.Swap(new) }
func (x *Bool) CompareAndSwap(old, new bool) bool {
	sim.Yield(sim.OpCAS)
	return x.v.CompareAndSwap(old, new)
}

type Pointer[T any] struct{ v ra.Pointer[T] }

func (x *Pointer[T]) Load() *T {
	sim.Yield(sim.OpLoad)
	r := x.v.Load()
	sim.AfterLoad()
	return r
}
func (x *Pointer[T]) Store(val *T)   { sim.Yield(sim.OpStore); x.v.Store(val) }
func (x *Pointer[T]) Swap(new *T) *T { sim.Yield(sim.OpSwap); return x.v.Swap(new) }
func (x *Pointer[T]) CompareAndSwap(old, new *T) bool {
	sim.Yield(sim.OpCAS)
	return x.v.CompareAndSwap(old, new)
}
