// Package model holds the small executable reference models used as oracles.
// They are written from the property statements (DESIGN.md appendix A), not
// from the implementation's code paths.
package model

import "math"

// Event kinds of the window log (0..4 mirror sentinel's MetricEvent numbering:
// pass, block, complete, error, rt); KindConc is the concurrency gauge.
const (
	KPass = iota
	KBlock
	KComplete
	KError
	KRt
	KConc
	NumKinds
)

type Ev struct {
	T    uint64 // ms timestamp the recorder's clock showed
	Kind int
	Amt  int64
}

// WindowLog is the aligned-bucket reference: an append-only event log plus
// the bucket length. Nothing else is stored; every statistic is recomputed
// from the log on demand.
type WindowLog struct {
	L   uint64 // bucket length of the underlying array
	I   uint64 // interval of the underlying array
	Evs []Ev
}

func (w *WindowLog) Add(t uint64, kind int, amt int64) {
	w.Evs = append(w.Evs, Ev{t, kind, amt})
}

func (w *WindowLog) Bucket(t uint64) uint64 { return t - t%w.L }

// Range returns [lo,hi] bucket starts of a window of length iv ending at the
// bucket of t, computed in signed arithmetic and clamped at zero.
func (w *WindowLog) Range(t, iv uint64) (lo, hi uint64) {
	hi = w.Bucket(t)
	l := int64(hi) - int64(iv) + int64(w.L)
	if l < 0 {
		l = 0
	}
	return uint64(l), hi
}

// retained: the array can only answer for buckets inside its own interval.
func (w *WindowLog) in(e Ev, lo, hi uint64) bool {
	b := w.Bucket(e.T)
	return b >= lo && b <= hi
}

func (w *WindowLog) Sum(kind int, lo, hi uint64) int64 {
	var s int64
	for _, e := range w.Evs {
		if e.Kind == kind && w.in(e, lo, hi) {
			s += e.Amt
		}
	}
	return s
}

// MinRt returns (min, present).
func (w *WindowLog) MinRt(lo, hi uint64) (int64, bool) {
	m, ok := int64(math.MaxInt64), false
	for _, e := range w.Evs {
		if e.Kind == KRt && w.in(e, lo, hi) {
			ok = true
			if e.Amt < m {
				m = e.Amt
			}
		}
	}
	return m, ok
}

func (w *WindowLog) MaxConc(lo, hi uint64) int64 {
	var m int64
	for _, e := range w.Evs {
		if e.Kind == KConc && w.in(e, lo, hi) && e.Amt > m {
			m = e.Amt
		}
	}
	return m
}

// MaxBucket returns the largest per-bucket sum of kind inside [lo,hi].
func (w *WindowLog) MaxBucket(kind int, lo, hi uint64) int64 {
	per := map[uint64]int64{}
	for _, e := range w.Evs {
		if e.Kind == kind && w.in(e, lo, hi) {
			per[w.Bucket(e.T)] += e.Amt
		}
	}
	var m int64
	for _, v := range per {
		if v > m {
			m = v
		}
	}
	return m
}

// SecItem is the reference per-second metric item.
type SecItem struct {
	Pass, Block, Complete, Error, Rt int64
	Conc                             int64
}

func (s SecItem) Zero() bool {
	return s.Pass == 0 && s.Block == 0 && s.Complete == 0 && s.Error == 0 && s.Rt == 0 && s.Conc == 0
}

// Seconds groups the events of buckets in [lo,hi] accepted by pred by second.
func (w *WindowLog) Seconds(lo, hi uint64, pred func(bucketStart uint64) bool) map[uint64]*SecItem {
	out := map[uint64]*SecItem{}
	for _, e := range w.Evs {
		b := w.Bucket(e.T)
		if !w.in(e, lo, hi) || !pred(b) {
			continue
		}
		sec := b - b%1000
		it := out[sec]
		if it == nil {
			it = &SecItem{}
			out[sec] = it
		}
		switch e.Kind {
		case KPass:
			it.Pass += e.Amt
		case KBlock:
			it.Block += e.Amt
		case KComplete:
			it.Complete += e.Amt
		case KError:
			it.Error += e.Amt
		case KRt:
			it.Rt += e.Amt
		case KConc:
			if e.Amt > it.Conc {
				it.Conc = e.Amt
			}
		}
	}
	return out
}

// Prune drops events that can never be read again (older than keep ms before t).
func (w *WindowLog) Prune(t, keep uint64) {
	if t < keep {
		return
	}
	cut := t - keep
	k := 0
	for _, e := range w.Evs {
		if e.T >= cut {
			w.Evs[k] = e
			k++
		}
	}
	w.Evs = w.Evs[:k]
}
