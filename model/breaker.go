package model

// Breaker states.
const (
	Closed = iota
	HalfOpen
	Open
)

var StateName = []string{"Closed", "HalfOpen", "Open"}

// Strategies.
const (
	SlowRatio = iota
	ErrRatio
	ErrCount
)

type BreakerRule struct {
	Strategy  int     `json:"strategy"`
	RetryMs   uint64  `json:"retry_ms"`
	MinReq    uint64  `json:"min_req"`
	StatMs    uint64  `json:"stat_ms"`
	Buckets   uint32  `json:"buckets"`
	MaxRt     uint64  `json:"max_rt"`
	Threshold float64 `json:"threshold"`
	ProbeNum  uint64  `json:"probe_num"`
}

type Transition struct {
	From, To int
}

// Breaker is the reference three-state machine (DESIGN.md A.2): driven only by
// completed requests and time.
type Breaker struct {
	R        BreakerRule
	State    int
	Deadline uint64
	ProbesOk uint64
	win      *WindowLog
	Events   []Transition
	// Band is set when the last closed-state decision was within the
	// floating-point ambiguity band of the threshold.
	Band bool
}

const (
	kTotal = 0
	kBad   = 1
)

func NewBreaker(r BreakerRule) *Breaker {
	n := uint64(r.Buckets)
	if n == 0 || r.StatMs%n != 0 {
		n = 1
	}
	return &Breaker{R: r, win: &WindowLog{L: r.StatMs / n, I: r.StatMs}}
}

func (b *Breaker) emit(from, to int) {
	b.Events = append(b.Events, Transition{from, to})
	b.State = to
}

func (b *Breaker) Counts(now uint64) (total, bad int64) {
	lo, hi := b.win.Range(now, b.R.StatMs)
	return b.win.Sum(kTotal, lo, hi), b.win.Sum(kBad, lo, hi)
}

// TryPass decides a request at time now. probe reports that this request moved
// the breaker to half-open (it is the probe and must be rolled back if a later
// breaker blocks it).
func (b *Breaker) TryPass(now uint64) (pass, probe bool) {
	switch b.State {
	case Closed:
		return true, false
	case Open:
		if now >= b.Deadline {
			b.emit(Open, HalfOpen)
			return true, true
		}
		return false, false
	default:
		return b.R.ProbeNum > 0, false
	}
}

// RollbackProbe: the probe request was blocked by someone else.
func (b *Breaker) RollbackProbe() {
	if b.State == HalfOpen {
		b.emit(HalfOpen, Open)
	}
}

// Clone returns an independent copy of the machine.
func (b *Breaker) Clone() *Breaker {
	c := *b
	w := *b.win
	w.Evs = append(w.Evs[:0:0], b.win.Evs...)
	c.win = &w
	c.Events = append(c.Events[:0:0], b.Events...)
	return &c
}

// Passage is the number of passages to half-open so far.
func (b *Breaker) Passage() int {
	n := 0
	for _, e := range b.Events {
		if e.From == Open && e.To == HalfOpen {
			n++
		}
	}
	return n
}

// CompleteIgnored feeds a completed request that the machine does not act on (a straggler from before the
// current passage to half-open, under the reading that only probes decide): it is recorded, nothing else.
func (b *Breaker) CompleteIgnored(now, rt uint64, failed bool) {
	bad := failed
	if b.R.Strategy == SlowRatio {
		bad = rt > b.R.MaxRt
	}
	b.win.Add(now, kTotal, 1)
	if bad {
		b.win.Add(now, kBad, 1)
	}
	b.win.Prune(now, 3*b.R.StatMs)
}

// Complete feeds a completed request.
func (b *Breaker) Complete(now, rt uint64, failed bool) {
	b.Band = false
	bad := failed
	if b.R.Strategy == SlowRatio {
		bad = rt > b.R.MaxRt
	}
	b.win.Add(now, kTotal, 1)
	if bad {
		b.win.Add(now, kBad, 1)
	}
	b.win.Prune(now, 3*b.R.StatMs)
	switch b.State {
	case Open:
		return
	case HalfOpen:
		if bad {
			b.ProbesOk = 0
			b.Deadline = now + b.R.RetryMs
			b.emit(HalfOpen, Open)
			return
		}
		b.ProbesOk++
		if b.R.ProbeNum == 0 || b.ProbesOk >= b.R.ProbeNum {
			b.ProbesOk = 0
			b.win.Evs = nil // closing clears the statistics
			b.emit(HalfOpen, Closed)
		}
		return
	}
	total, nbad := b.Counts(now)
	if uint64(total) < b.R.MinReq {
		return
	}
	trip := false
	switch b.R.Strategy {
	case ErrCount:
		trip = float64(nbad) >= b.R.Threshold
	default:
		// bad/total is a correctly rounded quotient of two integers: it equals a threshold written as the
		// decimal fraction of the same value exactly, so "reaches" needs no tolerance
		ratio := float64(nbad) / float64(total)
		trip = ratio >= b.R.Threshold
	}
	if trip {
		b.Deadline = now + b.R.RetryMs
		b.emit(Closed, Open)
	}
}
