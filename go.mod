module verif

go 1.23

require github.com/alibaba/sentinel-golang v0.0.0

require (
	github.com/beorn7/perks v1.0.1 // indirect
	github.com/cespare/xxhash/v2 v2.2.0 // indirect
	github.com/davecgh/go-spew v1.1.1 // indirect
	github.com/fsnotify/fsnotify v1.4.7 // indirect
	github.com/golang/protobuf v1.5.3 // indirect
	github.com/google/uuid v1.1.1 // indirect
	github.com/matttproud/golang_protobuf_extensions v1.0.4 // indirect
	github.com/pkg/errors v0.9.1 // indirect
	github.com/pmezard/go-difflib v1.0.0 // indirect
	github.com/prometheus/client_golang v1.16.0 // indirect
	github.com/prometheus/client_model v0.3.0 // indirect
	github.com/prometheus/common v0.42.0 // indirect
	github.com/prometheus/procfs v0.10.1 // indirect
	github.com/shirou/gopsutil/v3 v3.21.6 // indirect
	github.com/stretchr/objx v0.4.0 // indirect
	github.com/stretchr/testify v1.8.0 // indirect
	github.com/tklauser/go-sysconf v0.3.6 // indirect
	github.com/tklauser/numcpus v0.2.2 // indirect
	go.uber.org/atomic v1.6.0 // indirect
	go.uber.org/multierr v1.5.0 // indirect
	golang.org/x/sys v0.21.0 // indirect
	google.golang.org/protobuf v1.30.0 // indirect
	gopkg.in/yaml.v2 v2.4.0 // indirect
	gopkg.in/yaml.v3 v3.0.1 // indirect
)

replace github.com/alibaba/sentinel-golang => /repo
