#!/bin/bash
# check.sh <property id> <quick|thorough> [extra vsim args]: builds the driver if needed and runs one check.
# cwd-independent; everything is rebuilt from /repo's current working tree by vsim itself.
set -u
cd "$(dirname "$0")"
export GOFLAGS=-mod=mod GOPROXY=off GOSUMDB=off GOTOOLCHAIN=local TZ=UTC
ID="$1"; TIER="${2:-quick}"; shift; shift || true
mkdir -p bin
# (built under a private name and moved into place: several checks may run at once)
if ! go build -o bin/vsim.$$ ./cmd/vsim 2> bin/vsim.build.$$.log; then
  echo "vsim: driver build failed (infrastructure, not a verdict)"; cat bin/vsim.build.$$.log; rm -f bin/vsim.$$ bin/vsim.build.$$.log; exit 2
fi
rm -f bin/vsim.build.$$.log
mv -f bin/vsim.$$ bin/vsim
exec bin/vsim check "$ID" --tier "$TIER" "$@"
