#!/bin/bash
# check.sh <property id> <quick|thorough> [extra vsim args]: builds the driver if needed and runs one check.
# cwd-independent; everything is rebuilt from /repo's current working tree by vsim itself.
set -u
cd "$(dirname "$0")"
export GOFLAGS=-mod=mod GOPROXY=off GOSUMDB=off GOTOOLCHAIN=local TZ=UTC
ID="$1"; TIER="${2:-quick}"; shift; shift || true
mkdir -p bin
if ! go build -o bin/vsim ./cmd/vsim 2> bin/vsim.build.log; then
  echo "vsim: driver build failed (infrastructure, not a verdict)"; cat bin/vsim.build.log; exit 2
fi
exec bin/vsim check "$ID" --tier "$TIER" "$@"
