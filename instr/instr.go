// Package instr generates the build overlay that turns sentinel-golang's own
// synchronisation into simulator yield points. Nothing is written to the
// repository: rewritten copies live in a scratch directory and are mapped over
// the originals with `go build -overlay`.
package instr

import (
	"bytes"
	"crypto/sha256"
	"encoding/hex"
	"encoding/json"
	"fmt"
	"go/ast"
	"go/parser"
	"go/printer"
	"go/token"
	"os"
	"path/filepath"
	"sort"
	"strconv"
	"strings"
)

// Roots (relative to the repo) whose non-test files are instrumented.
var roots = []string{"api", "core", "util/atomic.go", "ext/datasource"}

// Excluded subtrees: the clock seam itself, configuration, and the metric log
// (single-threaded in every check that uses it).
var excluded = []string{"core/config", "core/log/metric"}

type Result struct {
	OverlayPath string
	TreeHash    string
	Files       int // files rewritten
	Helpers     int
	Sites       map[string]int // rewrite kind -> count
}

// Generate writes the overlay for repo into scratch and returns its path.
// helpersDir holds in-package helper files: <helpersDir>/<pkg path>/*.go.txt.
func Generate(repo, scratch, helpersDir string) (*Result, error) {
	res := &Result{Sites: map[string]int{}}
	overlay := map[string]string{}
	h := sha256.New()
	var files []string
	hashOnly := map[string]bool{} // excluded from rewriting, still part of the tree hash
	for _, r := range roots {
		p := filepath.Join(repo, r)
		st, err := os.Stat(p)
		if err != nil {
			return nil, fmt.Errorf("instrumenter: %v", err)
		}
		if !st.IsDir() {
			files = append(files, p)
			continue
		}
		err = filepath.Walk(p, func(path string, info os.FileInfo, err error) error {
			if err != nil {
				return err
			}
			rel, _ := filepath.Rel(repo, path)
			if info.IsDir() {
				return nil
			}
			if strings.HasSuffix(path, ".go") && !strings.HasSuffix(path, "_test.go") {
				for _, ex := range excluded {
					if strings.HasPrefix(rel, ex+"/") {
						hashOnly[path] = true
					}
				}
				files = append(files, path)
			}
			return nil
		})
		if err != nil {
			return nil, fmt.Errorf("instrumenter: %v", err)
		}
	}
	sort.Strings(files)
	outDir := filepath.Join(scratch, "ov")
	for _, f := range files {
		rel, _ := filepath.Rel(repo, f)
		src, err := os.ReadFile(f)
		if err != nil {
			return nil, fmt.Errorf("instrumenter: %v", err)
		}
		h.Write([]byte(rel))
		h.Write(src)
		if hashOnly[f] {
			continue
		}
		out, changed, err := rewriteFile(rel, src, res.Sites)
		if err != nil {
			return nil, fmt.Errorf("instrumenter: %s: %v", rel, err)
		}
		if !changed {
			continue
		}
		dst := filepath.Join(outDir, rel)
		if err := os.MkdirAll(filepath.Dir(dst), 0o755); err != nil {
			return nil, err
		}
		if err := os.WriteFile(dst, out, 0o644); err != nil {
			return nil, err
		}
		overlay[f] = dst
		res.Files++
	}
	// helper files
	if helpersDir != "" {
		err := filepath.Walk(helpersDir, func(path string, info os.FileInfo, err error) error {
			if err != nil {
				return err
			}
			if info.IsDir() || !strings.HasSuffix(path, ".go.txt") {
				return nil
			}
			rel, _ := filepath.Rel(helpersDir, path)
			target := filepath.Join(repo, strings.TrimSuffix(rel, ".txt"))
			if _, err := os.Stat(filepath.Dir(target)); err != nil {
				return fmt.Errorf("helper %s: package directory missing in repo", rel)
			}
			src, err := os.ReadFile(path)
			if err != nil {
				return err
			}
			dst := filepath.Join(outDir, strings.TrimSuffix(rel, ".txt"))
			if err := os.MkdirAll(filepath.Dir(dst), 0o755); err != nil {
				return err
			}
			if err := os.WriteFile(dst, src, 0o644); err != nil {
				return err
			}
			overlay[target] = dst
			h.Write([]byte(rel))
			h.Write(src)
			res.Helpers++
			return nil
		})
		if err != nil {
			return nil, fmt.Errorf("instrumenter: %v", err)
		}
	}
	js, _ := json.MarshalIndent(map[string]any{"Replace": overlay}, "", " ")
	res.OverlayPath = filepath.Join(scratch, "overlay.json")
	if err := os.WriteFile(res.OverlayPath, js, 0o644); err != nil {
		return nil, err
	}
	res.TreeHash = hex.EncodeToString(h.Sum(nil))[:16]
	return res, nil
}

func importName(f *ast.File, path string) (string, *ast.ImportSpec) {
	for _, im := range f.Imports {
		p, _ := strconv.Unquote(im.Path.Value)
		if p == path {
			if im.Name != nil {
				return im.Name.Name, im
			}
			return filepath.Base(path), im
		}
	}
	return "", nil
}

func rewriteFile(rel string, src []byte, sites map[string]int) ([]byte, bool, error) {
	fset := token.NewFileSet()
	f, err := parser.ParseFile(fset, rel, src, parser.ParseComments)
	if err != nil {
		return nil, false, err
	}
	changed := false
	if name, im := importName(f, "sync/atomic"); im != nil {
		im.Path.Value = strconv.Quote("verif/sim/simatomic")
		im.Name = ast.NewIdent(name)
		changed = true
		sites["import sync/atomic"]++
	}
	if name, im := importName(f, "sync"); im != nil {
		im.Path.Value = strconv.Quote("verif/sim/simsync")
		im.Name = ast.NewIdent(name)
		changed = true
		sites["import sync"]++
	}
	if rel == "ext/datasource/file/refreshable_file.go" {
		if name, im := importName(f, "github.com/fsnotify/fsnotify"); im != nil {
			im.Path.Value = strconv.Quote("verif/sim/simfsnotify")
			im.Name = ast.NewIdent(name)
			changed = true
			sites["import fsnotify"]++
		}
	}
	// runtime.Gosched() -> sim.Spin()
	if rname, rim := importName(f, "runtime"); rim != nil {
		n, other := 0, 0
		ast.Inspect(f, func(nd ast.Node) bool {
			sel, ok := nd.(*ast.SelectorExpr)
			if !ok {
				return true
			}
			id, ok := sel.X.(*ast.Ident)
			if !ok || id.Name != rname || id.Obj != nil {
				return true
			}
			if sel.Sel.Name == "Gosched" {
				id.Name = "verifsim"
				sel.Sel.Name = "Spin"
				n++
			} else {
				other++
			}
			return true
		})
		if n > 0 {
			changed = true
			sites["runtime.Gosched"] += n
			addImport(f, "verifsim", "verif/sim")
			if other == 0 {
				removeImport(f, rim)
			}
		}
	}
	// The outlier workers: init() starts a goroutine that consumes a task channel, and the tasks arm
	// time.AfterFunc timers. In the simulation (1) init is renamed so that no goroutine starts, (2) a function
	// VerifDrain<Worker>() with the SAME loop body is generated, which the harness calls to consume what is queued
	// (on its own goroutine, in an order it decides), (3) time.AfterFunc / time.Now go to the simulator's timer
	// queue and clock (verifsim.AfterFunc / TimeNow; they fall back to real time when no queue is installed).
	var appendix string
	if rel == "core/outlier/recycler.go" || rel == "core/outlier/retryer.go" {
		base := strings.TrimSuffix(filepath.Base(rel), ".go")
		Base := strings.ToUpper(base[:1]) + base[1:]
		for _, d := range f.Decls {
			fd, ok := d.(*ast.FuncDecl)
			if ok && fd.Recv == nil && fd.Name.Name == "init" {
				fd.Name.Name = "VerifStart" + Base
				changed = true
				sites["outlier init"]++
				ast.Inspect(fd, func(n ast.Node) bool {
					rs, ok := n.(*ast.RangeStmt)
					if !ok || appendix != "" {
						return true
					}
					ch, ok1 := rs.X.(*ast.Ident)
					key, ok2 := rs.Key.(*ast.Ident)
					if !ok1 || !ok2 || rs.Value != nil || !strings.HasSuffix(ch.Name, "Ch") {
						return true
					}
					body := string(src[fset.Position(rs.Body.Lbrace).Offset+1 : fset.Position(rs.Body.Rbrace).Offset])
					appendix = fmt.Sprintf(`

// VerifDrain%[1]s consumes what is queued on %[2]s with the loop body of the worker goroutine (generated by the
// /verif overlay). A panic ends the worker for good, as it ends the goroutine in the shipped code.
func VerifDrain%[1]s() (n int) {
	if verifDead%[1]s {
		return 0
	}
	defer func() {
		if err := recover(); err != nil {
			verifDead%[1]s = true
			logging.Error(fmt.Errorf("%%+v", err), "Unexpected panic when consuming %[2]s")
		}
	}()
	for {
		select {
		case %[3]s := <-%[2]s:
			n++
			%[4]s
		default:
			return n
		}
	}
}
`, Base, ch.Name, key.Name, body)
					sites["outlier worker drain"]++
					return true
				})
			}
		}
		n := 0
		ast.Inspect(f, func(nd ast.Node) bool {
			sel, ok := nd.(*ast.SelectorExpr)
			if !ok {
				return true
			}
			id, ok := sel.X.(*ast.Ident)
			if !ok || id.Name != "time" || id.Obj != nil {
				return true
			}
			switch sel.Sel.Name {
			case "AfterFunc":
				id.Name = "verifsim"
				n++
			case "Now":
				id.Name, sel.Sel.Name = "verifsim", "TimeNow"
				n++
			}
			return true
		})
		if n > 0 {
			changed = true
			sites["outlier timers"] += n
			addImport(f, "verifsim", "verif/sim")
		}
	}
	// Map iteration whose ORDER decides behaviour (which of several outlier nodes are filtered when the ejection
	// cap bites): the simulator owns the order. `for k, v := range m` in outlier.checkAllNodes becomes
	// `for _, k := range verifMapOrder(m) { v := m[k]; ... }`; verifMapOrder (helper file) sorts the keys and lets
	// the harness permute them from the case's PRNG.
	if rel == "core/outlier/slot.go" {
		ast.Inspect(f, func(n ast.Node) bool {
			rs, ok := n.(*ast.RangeStmt)
			if !ok || rs.Tok != token.DEFINE {
				return true
			}
			x, ok1 := rs.X.(*ast.Ident)
			k, ok2 := rs.Key.(*ast.Ident)
			v, ok3 := rs.Value.(*ast.Ident)
			if !ok1 || !ok2 || !ok3 || x.Name != "nodeBreaks" || k.Name == "_" || v.Name == "_" {
				return true
			}
			rs.Key = ast.NewIdent("_")
			rs.Value = ast.NewIdent(k.Name)
			rs.X = &ast.CallExpr{Fun: ast.NewIdent("verifMapOrder"), Args: []ast.Expr{ast.NewIdent(x.Name)}}
			asg := &ast.AssignStmt{Lhs: []ast.Expr{ast.NewIdent(v.Name)}, Tok: token.DEFINE,
				Rhs: []ast.Expr{&ast.IndexExpr{X: ast.NewIdent(x.Name), Index: ast.NewIdent(k.Name)}}}
			rs.Body.List = append([]ast.Stmt{asg}, rs.Body.List...)
			changed = true
			sites["ordered map range"]++
			return true
		})
	}
	if !changed {
		return src, false, nil
	}
	var buf bytes.Buffer
	cfg := printer.Config{Mode: printer.UseSpaces | printer.TabIndent, Tabwidth: 8}
	if err := cfg.Fprint(&buf, fset, f); err != nil {
		return nil, false, err
	}
	buf.WriteString(appendix)
	return buf.Bytes(), true, nil
}

func addImport(f *ast.File, name, path string) {
	for _, im := range f.Imports {
		if p, _ := strconv.Unquote(im.Path.Value); p == path {
			return
		}
	}
	spec := &ast.ImportSpec{Name: ast.NewIdent(name), Path: &ast.BasicLit{Kind: token.STRING, Value: strconv.Quote(path)}}
	for _, d := range f.Decls {
		gd, ok := d.(*ast.GenDecl)
		if ok && gd.Tok == token.IMPORT {
			gd.Specs = append(gd.Specs, spec)
			if !gd.Lparen.IsValid() {
				gd.Lparen = gd.Pos()
				gd.Rparen = gd.End()
			}
			f.Imports = append(f.Imports, spec)
			return
		}
	}
	gd := &ast.GenDecl{Tok: token.IMPORT, Specs: []ast.Spec{spec}}
	f.Decls = append([]ast.Decl{gd}, f.Decls...)
	f.Imports = append(f.Imports, spec)
}

func removeImport(f *ast.File, im *ast.ImportSpec) {
	for _, d := range f.Decls {
		gd, ok := d.(*ast.GenDecl)
		if !ok || gd.Tok != token.IMPORT {
			continue
		}
		for i, s := range gd.Specs {
			if s == im {
				gd.Specs = append(gd.Specs[:i], gd.Specs[i+1:]...)
				break
			}
		}
	}
	for i, s := range f.Imports {
		if s == im {
			f.Imports = append(f.Imports[:i], f.Imports[i+1:]...)
			break
		}
	}
}
