// simrun is the worker process: it is built by vsim with the instrumentation
// overlay and executes seeded simulated runs of one property.
//
// panicnil=1 is what every main module that declares a Go version below 1.21 runs with: panic(nil) is then
// recovered as nil. The library under test must recognise such a panic too (C01 / C16 script it).

//go:debug panicnil=1
package main

import (
	"flag"
	"fmt"
	"os"
	"strings"
	"time"

	"verif/harness"
	_ "verif/props/all"
)

func main() {
	var a harness.WorkerArgs
	var budget float64
	var replay string
	flag.StringVar(&a.Prop, "prop", "", "property id")
	flag.StringVar(&a.Tier, "tier", "quick", "quick|thorough")
	flag.Uint64Var(&a.Seed, "seed", 1, "VERIF_SEED")
	flag.IntVar(&a.Worker, "worker", 0, "worker index")
	flag.IntVar(&a.Workers, "workers", 1, "number of workers")
	flag.IntVar(&a.Runs, "runs", 0, "total runs (0 = until budget)")
	flag.Float64Var(&budget, "budget", 20, "wall budget in seconds")
	flag.StringVar(&a.Out, "out", "", "summary file")
	flag.StringVar(&a.ReplayDir, "replaydir", "/verif/replays", "where replay files go")
	flag.StringVar(&a.Tree, "tree", "", "tree hash")
	flag.StringVar(&replay, "replay", "", "replay a file literally")
	known := flag.String("known", "", "comma separated open known-finding keys")
	flag.StringVar(&a.Progress, "progress", "", "file holding the index of the run in flight")
	flag.IntVar(&a.GenOnly, "gen", -1, "only generate this run's case into -out")
	list := flag.Bool("list", false, "list properties")
	flag.Parse()
	if *list {
		for _, id := range harness.IDs() {
			fmt.Println(id, harness.Lookup(id).Engine())
		}
		return
	}
	if replay != "" {
		os.Exit(harness.Replay(replay, nil))
	}
	a.KnownKeys = map[string]bool{}
	for _, k := range strings.Split(*known, ",") {
		if k != "" {
			a.KnownKeys[k] = true
		}
	}
	a.Budget = time.Duration(budget * float64(time.Second))
	os.Exit(harness.RunWorker(a))
}
