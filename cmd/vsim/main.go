// vsim is the check driver: it generates the instrumentation overlay from the
// repository's current working tree, builds the worker, fans seeded runs out
// over the cores, aggregates evidence and reports violations.
//
//	vsim check <ID> [--tier quick|thorough] [--seed N] [--runs N] [--budget S] [--workers W]
//	vsim replay <file>
//	vsim build
//	vsim determinism <ID> [--runs N]
//
// Exit codes: 0 property held on everything explored (known findings are
// printed as KNOWN-FINDING lines); 1 violation (VIOLATION line); 2
// infrastructure problem (never a verdict).
package main

import (
	"encoding/binary"
	"encoding/json"
	"flag"
	"fmt"
	"os"
	"os/exec"
	"path/filepath"
	"runtime"
	"sort"
	"strconv"
	"strings"
	"sync"
	"time"

	"verif/instr"
)

const verifDir = "/verif"

type propConf struct {
	Engine      string
	Race        bool    // build with -race (E2r)
	Bubble      bool    // E3: test binary built with go1.26.8 (testing/synctest)
	QuickBudget float64 // seconds of search per worker
	ThorBudget  float64
	Workers     int // 0 = all cores
	// Arch: build the worker for another GOARCH (the platform is one more thing the library's arithmetic depends on)
	Arch string
	// Also386: after the search on the machine's own architecture a shorter one (a quarter of the budget, other
	// seed) runs on a worker built for GOARCH=386: int and pointers have 32 bits there. Skipped with a note where
	// such a worker cannot be built or executed.
	Also386 bool
}

var props = map[string]propConf{
	"C01": {Engine: "E1+E2", QuickBudget: 15, ThorBudget: 600, Also386: true},
	"C02": {Engine: "E1+E2", QuickBudget: 15, ThorBudget: 600, Also386: true},
	"C03": {Engine: "E1", QuickBudget: 12, ThorBudget: 600, Also386: true},
	"C04": {Engine: "E1+E2", QuickBudget: 12, ThorBudget: 600, Also386: true},
	"C05": {Engine: "E1+E2", QuickBudget: 12, ThorBudget: 600, Also386: true},
	"C06": {Engine: "E1+E2", QuickBudget: 12, ThorBudget: 600, Also386: true},
	"C07": {Engine: "E1", QuickBudget: 12, ThorBudget: 600, Also386: true},
	"C08": {Engine: "E1", QuickBudget: 12, ThorBudget: 600, Also386: true},
	"C10": {Engine: "E1+E2", QuickBudget: 15, ThorBudget: 600, Also386: true},
	"C11": {Engine: "E1", QuickBudget: 12, ThorBudget: 600, Also386: true},
	"C20": {Engine: "E1", QuickBudget: 12, ThorBudget: 600, Also386: true},
	"C18": {Engine: "E3", Bubble: true, QuickBudget: 15, ThorBudget: 600},
	"C17": {Engine: "E4", QuickBudget: 15, ThorBudget: 600, Also386: true},
	"C16": {Engine: "E1", QuickBudget: 12, ThorBudget: 600, Also386: true},
	"C14": {Engine: "E1", QuickBudget: 12, ThorBudget: 600, Also386: true},
	"C15": {Engine: "E2r", Race: true, QuickBudget: 25, ThorBudget: 900, Workers: 8},
	"C13": {Engine: "E1", QuickBudget: 12, ThorBudget: 600, Also386: true},
	"C12": {Engine: "E2", QuickBudget: 15, ThorBudget: 600, Also386: true},
	"C09": {Engine: "E2", QuickBudget: 15, ThorBudget: 600, Also386: true},
}

type summary struct {
	Property    string            `json:"property"`
	Evaluations int               `json:"evaluations"`
	Nontrivial  []uint64          `json:"nontrivial_hashes"`
	SchedHashes []uint64          `json:"sched_hashes"`
	Probes      map[string]int    `json:"probes"`
	Faults      map[string]int    `json:"faults"`
	SimMs       uint64            `json:"sim_ms"`
	Steps       int               `json:"steps"`
	Ambiguous   int               `json:"ambiguous"`
	Samples     []json.RawMessage `json:"samples"`
	Violations  []violationRec    `json:"violations"`
	Witness     map[string]string `json:"witness"`
	KnownSeen   map[string]int    `json:"known_seen"`
	Infra       string            `json:"infra"`
	WallS       float64           `json:"wall_s"`
	Desc        description       `json:"desc"`
}

type violationRec struct {
	Run    int    `json:"run"`
	Inv    string `json:"invariant"`
	Msg    string `json:"message"`
	Key    string `json:"finding_key"`
	Replay string `json:"replay"`
	Ops    int    `json:"ops_after_minimisation"`
	Ops0   int    `json:"ops_before_minimisation"`
}

type description struct {
	Rule         string
	Assumptions  []string
	Real         []string
	Stub         []string
	Level        string
	Exhaustive   bool
	ZeroProbesOK []string
	MustHit      []string
}

type knownFinding struct {
	Property string `json:"property"`
	Key      string `json:"key"`
	Status   string `json:"status"` // open | fixed
	Commit   string `json:"commit,omitempty"`
	What     string `json:"what"`
}

func goEnv() []string {
	env := os.Environ()
	env = append(env, "GOFLAGS=-mod=mod", "GOPROXY=off", "GOSUMDB=off", "GOTOOLCHAIN=local", "TZ=UTC")
	return env
}

func repoDir() string {
	if d := os.Getenv("VERIF_REPO"); d != "" {
		return d
	}
	return "/repo"
}

// evidenceDir: /verif/evidence describes runs against /repo only; a run against another tree (VERIF_REPO, used by
// the mutant tools) writes its evidence into that tree's scratch area instead.
func evidenceDir() string {
	if d := os.Getenv("VERIF_REPO"); d != "" && d != "/repo" {
		return filepath.Join(os.TempDir(), "verif-evidence-"+filepath.Base(d))
	}
	return filepath.Join(verifDir, "evidence")
}

// replaysDir: like evidenceDir, replay files of runs against another tree do not go to /verif/replays.
func replaysDir() string {
	if d := os.Getenv("VERIF_REPO"); d != "" && d != "/repo" {
		return filepath.Join(os.TempDir(), "verif-replays-"+filepath.Base(d))
	}
	return filepath.Join(verifDir, "replays")
}

func die2(format string, a ...any) {
	fmt.Fprintf(os.Stderr, "vsim: "+format+"\n", a...)
	os.Exit(2)
}

type built struct {
	scratch string
	bin     string
	tree    string
	sites   map[string]int
}

// build generates the overlay from the repo's working tree and builds the worker.
func build(pc propConf) *built {
	b, err := tryBuild(pc)
	if err != nil {
		die2("%v", err)
	}
	return b
}

func tryBuild(pc propConf) (*built, error) {
	scratch, err := os.MkdirTemp("", "vsim-")
	if err != nil {
		return nil, err
	}
	repo := repoDir()
	res, err := instr.Generate(repo, scratch, filepath.Join(verifDir, "instr", "helpers"))
	if err != nil {
		os.RemoveAll(scratch)
		return nil, err
	}
	// scratch go.mod with the replace pointing at the repo under test
	gomod := fmt.Sprintf("module verif\n\ngo 1.23\n\nrequire github.com/alibaba/sentinel-golang v0.0.0\n\nreplace github.com/alibaba/sentinel-golang => %s\n", repo)
	modfile := filepath.Join(scratch, "go.mod")
	if err := os.WriteFile(modfile, []byte(gomod), 0o644); err != nil {
		return nil, err
	}
	sum, err := os.ReadFile(filepath.Join(repo, "go.sum"))
	if err != nil {
		return nil, err
	}
	_ = os.WriteFile(filepath.Join(scratch, "go.sum"), sum, 0o644)
	b := &built{scratch: scratch, tree: res.TreeHash, sites: res.Sites}
	b.bin = filepath.Join(scratch, "simrun")
	var cmd *exec.Cmd
	if pc.Bubble {
		b.bin = filepath.Join(scratch, "simrun.test")
		cmd = exec.Command("go1.26.8", "test", "-c", "-vet=off", "-overlay", res.OverlayPath, "-modfile", modfile, "-o", b.bin, "./cmd/simbubble")
	} else {
		args := []string{"build", "-overlay", res.OverlayPath, "-modfile", modfile, "-o", b.bin}
		if pc.Race {
			args = append(args, "-race")
		}
		args = append(args, "./cmd/simrun")
		cmd = exec.Command("go", args...)
	}
	cmd.Dir = verifDir
	cmd.Env = goEnv()
	if pc.Arch != "" {
		cmd.Env = append(cmd.Env, "GOARCH="+pc.Arch)
	}
	out, err := cmd.CombinedOutput()
	if err != nil {
		os.RemoveAll(scratch)
		return nil, fmt.Errorf("build of the instrumented worker failed (not a verdict):\n%s", out)
	}
	return b, nil
}

func (b *built) cleanup() { os.RemoveAll(b.scratch) }

func workerCmd(b *built, pc propConf, args ...string) *exec.Cmd {
	var cmd *exec.Cmd
	if pc.Bubble {
		cmd = exec.Command(b.bin, append([]string{"-test.run", "^TestSim$", "-test.timeout", "0"}, args...)...)
	} else {
		cmd = exec.Command(b.bin, args...)
	}
	cmd.Env = goEnv()
	cmd.Dir = b.scratch
	return cmd
}

func main() {
	if len(os.Args) < 2 {
		die2("usage: vsim check|replay|build|determinism ...")
	}
	switch os.Args[1] {
	case "build":
		for _, pc := range []propConf{{}, {Race: true}, {Bubble: true}} {
			b := build(pc)
			b.cleanup()
		}
		fmt.Println("vsim: worker builds ok")
	case "check":
		os.Exit(cmdCheck(os.Args[2:]))
	case "replay":
		os.Exit(cmdReplay(os.Args[2:]))
	case "determinism":
		os.Exit(cmdDeterminism(os.Args[2:]))
	default:
		die2("unknown command %s", os.Args[1])
	}
}

func parseCommon(args []string) (id string, fs *flag.FlagSet, rest []string) {
	if len(args) < 1 {
		die2("property id required")
	}
	return args[0], flag.NewFlagSet("vsim", flag.ExitOnError), args[1:]
}

func cmdReplay(args []string) int {
	if len(args) < 1 {
		die2("usage: vsim replay <file>")
	}
	path, _ := filepath.Abs(args[0])
	raw, err := os.ReadFile(path)
	if err != nil {
		die2("%v", err)
	}
	var c struct {
		Property string `json:"property"`
		Arch     string `json:"goarch"`
	}
	if err := json.Unmarshal(raw, &c); err != nil {
		die2("%v", err)
	}
	if c.Property == "C19" {
		var m map[string]any
		_ = json.Unmarshal(raw, &m)
		return cmdReplayC19(path, m)
	}
	pc, ok := props[c.Property]
	if !ok {
		die2("unknown property %q in replay file", c.Property)
	}
	if c.Arch != "" && c.Arch != runtime.GOARCH {
		pc.Arch = c.Arch
	}
	b := build(pc)
	defer b.cleanup()
	cmd := workerCmd(b, pc, "-replay", path)
	if pc.Race {
		cmd.Env = append(cmd.Env, "GORACE=halt_on_error=1", "GOMAXPROCS=4")
	}
	out, err := cmd.CombinedOutput()
	fmt.Print(string(out))
	if strings.Contains(string(out), "fatal error:") || strings.Contains(string(out), "WARNING: DATA RACE") {
		fmt.Printf("VIOLATION property=%s replay=%s\n", c.Property, path)
		return 1
	}
	if ee, ok := err.(*exec.ExitError); ok {
		return ee.ExitCode()
	} else if err != nil {
		die2("%v", err)
	}
	return 0
}

func cmdCheck(args []string) int {
	id, fs, rest := parseCommon(args)
	pc, ok := props[id]
	if !ok && id != "C19" {
		die2("unknown property %s", id)
	}
	tier := fs.String("tier", "", "quick|thorough")
	seedF := fs.String("seed", "", "seed (default VERIF_SEED or per-tier constant)")
	runs := fs.Int("runs", 0, "total runs (0 = until budget)")
	budget := fs.Float64("budget", 0, "seconds of search per worker")
	workers := fs.Int("workers", 0, "workers")
	_ = fs.Parse(rest)
	if *tier == "" {
		*tier = os.Getenv("VERIF_TIER")
	}
	if *tier != "thorough" {
		*tier = "quick"
	}
	seed := uint64(1)
	if *tier == "thorough" {
		seed = 1001
	}
	if s := os.Getenv("VERIF_SEED"); s != "" {
		if v, err := strconv.ParseUint(s, 10, 64); err == nil {
			seed = v
		}
	}
	if *seedF != "" {
		if v, err := strconv.ParseUint(*seedF, 10, 64); err == nil {
			seed = v
		}
	}
	if *budget == 0 {
		*budget = pc.QuickBudget
		if *tier == "thorough" {
			*budget = pc.ThorBudget
		}
	}
	if *workers == 0 {
		*workers = pc.Workers
		if *workers == 0 {
			*workers = runtime.NumCPU()
		}
	}
	if id == "C19" {
		return cmdCheckC19(*tier, seed, *runs)
	}
	if a := os.Getenv("VERIF_GOARCH"); a != "" {
		pc.Arch = a
	}
	start := time.Now()
	fmt.Printf("vsim: property=%s tier=%s seed=%d workers=%d budget=%.0fs repo=%s\n", id, *tier, seed, *workers, *budget, repoDir())
	b := build(pc)
	defer b.cleanup()
	fmt.Printf("vsim: instrumented tree %s (%v), build %.1fs\n", b.tree, b.sites, time.Since(start).Seconds())
	replayDir := replaysDir()
	_ = os.MkdirAll(replayDir, 0o755)
	var openKeys []string
	for _, k := range loadKnown() {
		if k.Property == id && k.Status == "open" {
			openKeys = append(openKeys, k.Key)
		}
	}
	var wg sync.WaitGroup
	sums := make([]*summary, *workers)
	errs := make([]string, *workers)
	fatals := make([]*violationRec, *workers)
	for w := 0; w < *workers; w++ {
		wg.Add(1)
		go func(w int) {
			defer wg.Done()
			out := filepath.Join(b.scratch, fmt.Sprintf("sum-%d.json", w))
			progress := filepath.Join(b.scratch, fmt.Sprintf("progress-%d", w))
			cmd := workerCmd(b, pc, "-prop", id, "-tier", *tier, "-seed", fmt.Sprint(seed), "-worker", fmt.Sprint(w),
				"-workers", fmt.Sprint(*workers), "-runs", fmt.Sprint(*runs), "-budget", fmt.Sprint(*budget),
				"-out", out, "-replaydir", replayDir, "-tree", b.tree, "-known", strings.Join(openKeys, ","), "-progress", progress)
			if pc.Race {
				// the first race report ends the worker; the run in flight is recovered from the progress file
				cmd.Env = append(cmd.Env, "GORACE=halt_on_error=1", "GOMAXPROCS=4")
			}
			stderr, err := cmd.CombinedOutput()
			raw, rerr := os.ReadFile(out)
			if rerr != nil {
				// A Go runtime fatal error (concurrent map access, ...) inside the code under test kills the
				// worker without a summary: that is a finding about the run in flight, not an infrastructure problem.
				i := strings.Index(string(stderr), "fatal error:")
				if j := strings.Index(string(stderr), "WARNING: DATA RACE"); j >= 0 && (i < 0 || j < i) {
					i = j
				}
				if i >= 0 && err != nil {
					if v := postMortem(b, pc, id, *tier, seed, progress, string(stderr)[i:], replayDir); v != nil {
						fatals[w] = v
						return
					}
				}
				errs[w] = fmt.Sprintf("worker %d produced no summary (%v): %s", w, err, tail(string(stderr), 2000))
				return
			}
			var s summary
			if jerr := json.Unmarshal(raw, &s); jerr != nil {
				errs[w] = fmt.Sprintf("worker %d summary unreadable: %v", w, jerr)
				return
			}
			if s.Infra != "" {
				errs[w] = fmt.Sprintf("worker %d: %s", w, s.Infra)
			}
			sums[w] = &s
		}(w)
	}
	wg.Wait()
	for _, e := range errs {
		if e != "" {
			fmt.Fprintln(os.Stderr, "vsim: infrastructure problem (not a verdict):", e)
			return 2
		}
	}
	if pc.Also386 && pc.Arch == "" && *runs == 0 {
		sums = append(sums, pass386(pc, id, *tier, seed, *budget/4, replayDir, openKeys)...)
	}
	for w, v := range fatals {
		if v != nil {
			if sums[w] == nil {
				sums[w] = &summary{Probes: map[string]int{}, Faults: map[string]int{}}
			}
			sums[w].Violations = append(sums[w].Violations, *v)
		}
	}
	return report(id, *tier, seed, pc, sums, b, time.Since(start).Seconds())
}

// pass386 runs the search again, shorter and from another seed, on a worker built for GOARCH=386. Trouble building or
// starting such a worker is not a verdict and not a failure of the check: the pass is skipped with a note.
func pass386(pc propConf, id, tier string, seed uint64, budget float64, replayDir string, openKeys []string) []*summary {
	pc.Arch = "386"
	b, err := tryBuild(pc)
	if err != nil {
		fmt.Printf("vsim: note: no 386 pass (the worker could not be built for GOARCH=386: %s)\n", firstLine(err.Error()))
		return nil
	}
	defer b.cleanup()
	const workers = 4
	var wg sync.WaitGroup
	sums := make([]*summary, workers)
	notes := make([]string, workers)
	for w := 0; w < workers; w++ {
		wg.Add(1)
		go func(w int) {
			defer wg.Done()
			out := filepath.Join(b.scratch, fmt.Sprintf("sum386-%d.json", w))
			cmd := workerCmd(b, pc, "-prop", id, "-tier", tier, "-seed", fmt.Sprint(seed+386000), "-worker", fmt.Sprint(w),
				"-workers", fmt.Sprint(workers), "-runs", "0", "-budget", fmt.Sprint(budget),
				"-out", out, "-replaydir", replayDir, "-tree", b.tree, "-known", strings.Join(openKeys, ","))
			stderr, err := cmd.CombinedOutput()
			raw, rerr := os.ReadFile(out)
			var s summary
			if rerr != nil || json.Unmarshal(raw, &s) != nil || s.Infra != "" {
				notes[w] = firstLine(fmt.Sprintf("%v %s %s", err, s.Infra, tail(string(stderr), 300)))
				return
			}
			sums[w] = &s
		}(w)
	}
	wg.Wait()
	var ok []*summary
	n := 0
	for w, s := range sums {
		if s == nil {
			fmt.Printf("vsim: note: 386 worker %d gave no result (%s)\n", w, notes[w])
			continue
		}
		n += s.Evaluations
		ok = append(ok, s)
	}
	if len(ok) > 0 {
		if ok[0].Probes == nil {
			ok[0].Probes = map[string]int{}
		}
		ok[0].Probes["runs_on_a_worker_built_for_GOARCH_386"] = n
		fmt.Printf("vsim: 386 pass: %d runs on a worker built for GOARCH=386 (int and pointers of 32 bits), seed %d, %.0f s\n", n, seed+386000, budget)
	}
	return ok
}

// real386 adds the note about the 386 pass to the list of real components when the pass ran.
func real386(agg *summary) []string {
	const note = "the same code a second time on a worker built for GOARCH=386 (a quarter of the budget, seed + 386000): int and pointers of 32 bits - skipped with a note where such a worker cannot be built or run"
	out := []string{}
	for _, r := range agg.Desc.Real {
		if !strings.HasPrefix(r, "the same code a second time on a worker built for GOARCH=386") {
			out = append(out, r)
		}
	}
	if agg.Probes["runs_on_a_worker_built_for_GOARCH_386"] > 0 {
		out = append(out, note)
	}
	return out
}

func firstLine(s string) string {
	s = strings.TrimSpace(s)
	if i := strings.IndexByte(s, '\n'); i >= 0 {
		s = s[:i]
	}
	if len(s) > 300 {
		s = s[:300]
	}
	return s
}

// postMortem regenerates the case that was in flight when a worker died of a runtime fatal error and
// writes it as a replay file.
func postMortem(b *built, pc propConf, id, tier string, seed uint64, progress, msg, replayDir string) *violationRec {
	raw, err := os.ReadFile(progress)
	if err != nil || len(raw) < 8 {
		return nil
	}
	idx := int(binary.LittleEndian.Uint64(raw[:8]))
	casePath := filepath.Join(replayDir, fmt.Sprintf("%s-%d-%d.json", id, seed, idx))
	cmd := workerCmd(b, pc, "-prop", id, "-tier", tier, "-seed", fmt.Sprint(seed), "-gen", fmt.Sprint(idx), "-out", casePath)
	if out, err := cmd.CombinedOutput(); err != nil {
		fmt.Fprintln(os.Stderr, "vsim: cannot regenerate the case in flight:", err, string(out))
		return nil
	}
	var c map[string]any
	js, _ := os.ReadFile(casePath)
	if json.Unmarshal(js, &c) != nil {
		return nil
	}
	first := msg
	inv := id + ".runtime-fatal-error"
	note := "the Go runtime aborted the process during this run; whether it recurs depends on real goroutine timing the simulator does not own"
	if strings.HasPrefix(msg, "WARNING: DATA RACE") {
		inv = id + ".data-race"
		note = "reported by the Go race detector under the seeded schedule of this run; the worker stops at the first report, the case is not minimised"
		if len(first) > 3000 {
			first = first[:3000]
		}
	} else {
		if i := strings.Index(first, "\n\n"); i > 0 {
			first = first[:i]
		}
		if len(first) > 600 {
			first = first[:600]
		}
	}
	c["violation"] = map[string]any{"invariant": inv, "message": first, "step": 0}
	c["flaky"] = note
	js, _ = json.MarshalIndent(c, "", " ")
	_ = os.WriteFile(casePath, js, 0o644)
	return &violationRec{Run: idx, Inv: inv, Msg: first, Replay: casePath}
}

func tail(s string, n int) string {
	if len(s) > n {
		return s[len(s)-n:]
	}
	return s
}

func loadKnown() []knownFinding {
	raw, err := os.ReadFile(filepath.Join(verifDir, "known_findings.json"))
	if err != nil {
		return nil
	}
	var k struct {
		Findings []knownFinding `json:"findings"`
	}
	if err := json.Unmarshal(raw, &k); err != nil {
		die2("known_findings.json: %v", err)
	}
	return k.Findings
}

func report(id, tier string, seed uint64, pc propConf, sums []*summary, b *built, wall float64) int {
	agg := &summary{Probes: map[string]int{}, Faults: map[string]int{}, Witness: map[string]string{}}
	nontriv := map[uint64]struct{}{}
	scheds := map[uint64]struct{}{}
	knownSeenW := map[string]int{}
	for _, s := range sums {
		if s == nil {
			continue
		}
		agg.Desc = s.Desc
		agg.Evaluations += s.Evaluations
		for _, h := range s.Nontrivial {
			nontriv[h] = struct{}{}
		}
		for _, h := range s.SchedHashes {
			scheds[h] = struct{}{}
		}
		for k, v := range s.Probes {
			agg.Probes[k] += v
		}
		for k, v := range s.Faults {
			agg.Faults[k] += v
		}
		for k, v := range s.Witness {
			agg.Witness[k] = v
		}
		for k, v := range s.KnownSeen {
			knownSeenW[k] += v
		}
		agg.SimMs += s.SimMs
		agg.Steps += s.Steps
		agg.Ambiguous += s.Ambiguous
		if len(agg.Samples) < 4 && len(s.Samples) > 0 {
			agg.Samples = append(agg.Samples, s.Samples[0])
		}
		agg.Violations = append(agg.Violations, s.Violations...)
	}
	known := loadKnown()
	open := map[string]knownFinding{}
	for _, k := range known {
		if k.Property == id && k.Status == "open" {
			open[k.Key] = k
		}
	}
	knownSeen := map[string]int{}
	for k, v := range knownSeenW {
		if _, ok := open[k]; ok {
			knownSeen[k] += v
		}
	}
	var real []violationRec
	for _, v := range agg.Violations {
		if _, ok := open[v.Key]; ok && v.Key != "" {
			knownSeen[v.Key]++
			_ = os.Remove(v.Replay) // the committed witness is the record of a known finding
			continue
		}
		real = append(real, v)
	}
	for key, st := range agg.Witness {
		if _, ok := open[key]; !ok {
			continue
		}
		if st == "fails" {
			knownSeen[key]++
		}
	}
	keys := make([]string, 0, len(knownSeen))
	for k := range knownSeen {
		keys = append(keys, k)
	}
	sort.Strings(keys)
	for _, k := range keys {
		fmt.Printf("KNOWN-FINDING: property=%s %s [%s]\n", id, open[k].What, k)
	}
	sort.Slice(real, func(i, j int) bool { return real[i].Run < real[j].Run })
	for _, v := range real {
		fmt.Printf("violation: %s run=%d ops %d->%d: %s\n", v.Inv, v.Run, v.Ops0, v.Ops, oneLine(v.Msg))
		fmt.Printf("VIOLATION property=%s replay=%s\n", id, v.Replay)
	}
	// evidence
	runsPerHour := 0.0
	if wall > 0 {
		runsPerHour = float64(agg.Evaluations) / wall * 3600
	}
	var samples []any
	for _, s := range agg.Samples {
		var v any
		_ = json.Unmarshal(s, &v)
		samples = append(samples, v)
	}
	if len(samples) == 0 {
		samples = append(samples, map[string]any{"note": "no non-trivial run in this batch"})
	}
	level := agg.Desc.Level
	if level == "" {
		level = "exploration"
	}
	zeroProbes := []string{}
	for k, v := range agg.Probes {
		if v == 0 {
			zeroProbes = append(zeroProbes, k)
		}
	}
	ev := map[string]any{
		"property_id": id,
		"tier":        tier,
		"seed":        seed,
		"level":       level,
		"coverage": map[string]any{
			"evaluations":            agg.Evaluations,
			"distinct_nontrivial":    len(nontriv),
			"rule":                   agg.Desc.Rule,
			"samples":                samples,
			"exhaustive":             agg.Desc.Exhaustive,
			"runs_per_hour":          int(runsPerHour),
			"sim_time_ms":            agg.SimMs,
			"scheduler_steps":        agg.Steps,
			"distinct_interleavings": len(scheds),
			"faults_fired":           agg.Faults,
			"probes_hit":             agg.Probes,
			"boundary_ambiguous":     agg.Ambiguous,
			"components":             map[string]any{"real": real386(agg), "stub": agg.Desc.Stub},
			"known_findings_seen":    knownSeen,
			"engine":                 pc.Engine,
			"instrumented_tree":      b.tree,
			"instrumentation_sites":  b.sites,
			"workers":                len(sums),
		},
		"assumptions": agg.Desc.Assumptions,
		"wall_s":      wall,
		"violations":  len(real),
	}
	js, _ := json.MarshalIndent(ev, "", " ")
	_ = os.MkdirAll(evidenceDir(), 0o755)
	if err := os.WriteFile(filepath.Join(evidenceDir(), id+".json"), js, 0o644); err != nil {
		die2("%v", err)
	}
	fmt.Printf("vsim: %s %s: %d runs (%d distinct non-trivial, %d distinct interleavings), %.0f runs/h, sim time %d ms, %d violation(s), %d known, %.1fs\n",
		id, tier, agg.Evaluations, len(nontriv), len(scheds), runsPerHour, agg.SimMs, len(real), len(knownSeen), wall)
	if len(real) > 0 {
		return 1
	}
	if agg.Evaluations >= 500 {
		for _, k := range agg.Desc.MustHit {
			if agg.Probes[k] == 0 && agg.Faults[k] == 0 {
				fmt.Fprintf(os.Stderr, "vsim: probe %q never fired in %d runs: the batch did not reach what it claims to cover (infrastructure problem)\n", k, agg.Evaluations)
				return 2
			}
		}
	}
	if len(nontriv) < 2 {
		fmt.Fprintln(os.Stderr, "vsim: fewer than 2 distinct non-trivial runs: the batch explored nothing (infrastructure problem)")
		return 2
	}
	return 0
}

func oneLine(s string) string {
	s = strings.ReplaceAll(s, "\n", " | ")
	if len(s) > 400 {
		s = s[:400] + "..."
	}
	return s
}

// cmdDeterminism runs the same seeds several times under different GOMAXPROCS
// in separate processes and compares the per-run fingerprints.
func cmdDeterminism(args []string) int {
	id, fs, rest := parseCommon(args)
	pc, ok := props[id]
	if !ok {
		die2("unknown property %s", id)
	}
	runs := fs.Int("runs", 200, "runs per process")
	reps := fs.Int("reps", 3, "repetitions per GOMAXPROCS value")
	_ = fs.Parse(rest)
	b := build(pc)
	defer b.cleanup()
	type key struct{ procs, rep int }
	var mu sync.Mutex
	finger := map[key]string{}
	runlogs := map[key][]string{}
	var wg sync.WaitGroup
	sem := make(chan struct{}, 8)
	for _, procs := range []int{1, 4, 16} {
		for r := 0; r < *reps; r++ {
			wg.Add(1)
			go func(procs, r int) {
				defer wg.Done()
				sem <- struct{}{}
				defer func() { <-sem }()
				out := filepath.Join(b.scratch, fmt.Sprintf("det-%d-%d.json", procs, r))
				cmd := workerCmd(b, pc, "-prop", id, "-tier", "quick", "-seed", "7", "-worker", "0", "-workers", "1",
					"-runs", fmt.Sprint(*runs), "-budget", "0", "-out", out, "-replaydir", b.scratch)
				cmd.Env = append(cmd.Env, fmt.Sprintf("GOMAXPROCS=%d", procs), "VERIF_RUNLOG="+out+".runlog")
				_, _ = cmd.CombinedOutput()
				raw, _ := os.ReadFile(out)
				var s summary
				_ = json.Unmarshal(raw, &s)
				fp := fmt.Sprintf("ev=%d nt=%v sh=%v probes=%v steps=%d sim=%d viol=%d infra=%q", s.Evaluations, s.Nontrivial, s.SchedHashes, s.Probes, s.Steps, s.SimMs, len(s.Violations), s.Infra)
				rl, _ := os.ReadFile(out + ".runlog")
				mu.Lock()
				runlogs[key{procs, r}] = strings.Split(string(rl), "\n")
				finger[key{procs, r}] = fp
				mu.Unlock()
			}(procs, r)
		}
	}
	wg.Wait()
	divergedRun := -1
	var first string
	var firstKey key
	okAll := true
	for k, fp := range finger {
		if first == "" {
			first, firstKey = fp, k
		}
		if fp != first {
			okAll = false
			a, b := runlogs[firstKey], runlogs[k]
			for i := 0; i < len(a) && i < len(b); i++ {
				if a[i] != b[i] {
					fmt.Printf("first differing run (run, schedule hash, steps, non-trivial): ref %q got %q\n", a[i], b[i])
					if divergedRun < 0 {
						_, _ = fmt.Sscan(a[i], &divergedRun)
					}
					break
				}
			}
			i := 0
			for i < len(fp) && i < len(first) && fp[i] == first[i] {
				i++
			}
			lo := i - 60
			if lo < 0 {
				lo = 0
			}
			hi := func(s string) int {
				if i+80 < len(s) {
					return i + 80
				}
				return len(s)
			}
			fmt.Printf("DIVERGENCE at GOMAXPROCS=%d rep=%d\n  ref: ...%s\n  got: ...%s\n", k.procs, k.rep, first[lo:hi(first)], fp[lo:hi(fp)])
		}
	}
	if !okAll && divergedRun >= 0 {
		// where do two executions of that run part ways? (step logs of repeated executions, first difference)
		var ref []string
		for try := 0; try < 24; try++ {
			lf := filepath.Join(b.scratch, fmt.Sprintf("steplog-%d", try))
			cmd := workerCmd(b, pc, "-prop", id, "-tier", "quick", "-seed", "7", "-worker", "0", "-workers", "1",
				"-runs", fmt.Sprint(divergedRun+1), "-budget", "0", "-out", lf+".json", "-replaydir", b.scratch)
			cmd.Env = append(cmd.Env, fmt.Sprintf("GOMAXPROCS=%d", []int{1, 4, 16}[try%3]), "VERIF_STEPLOG="+lf, "VERIF_STEPRUN="+fmt.Sprint(divergedRun))
			_, _ = cmd.CombinedOutput()
			raw, _ := os.ReadFile(lf)
			lines := strings.Split(string(raw), "\n")
			if ref == nil {
				ref = lines
				continue
			}
			d := 0
			for d < len(ref) && d < len(lines) && ref[d] == lines[d] {
				d++
			}
			if d == len(ref) && d == len(lines) {
				continue
			}
			fmt.Printf("run %d: step logs part ways at line %d\n", divergedRun, d)
			lo := d - 12
			if lo < 0 {
				lo = 0
			}
			for i := lo; i < d+6; i++ {
				l, r := "", ""
				if i < len(ref) {
					l = ref[i]
				}
				if i < len(lines) {
					r = lines[i]
				}
				mark := "  "
				if l != r {
					mark = "!="
				}
				fmt.Printf("%s %s\n   %s\n", mark, l, r)
			}
			break
		}
	}
	if !okAll {
		fmt.Println("determinism: FAILED")
		return 2
	}
	fmt.Printf("determinism: %s ok (%d processes x %d runs identical; fingerprint length %d)\n", id, len(finger), *runs, len(first))
	return 0
}
