package main

import (
	"encoding/json"
	"fmt"
	"go/ast"
	"go/parser"
	"go/token"
	"os"
	"os/exec"
	"path/filepath"
	"sort"
	"strings"
	"sync"
	"time"
)

// C19 runs inside the adapters' own modules: for each driven adapter the driver
// sources of /verif/props/c19/drivers are overlaid into the adapter package as a
// test file and executed there with `go test` (-modfile points at a scratch copy
// of the adapter's go.mod so that nothing under /repo is written).

var c19Adapters = map[string]string{ // adapter dir -> package name
	"gin": "gin", "echo": "echo", "grpc": "grpc", "micro": "micro",
	"go-zero": "go_zero", "kratos": "kratos", "fiber": "fiber", "iris": "iris", "gear": "gear", "goframe": "goframe",
}

type c19Summary struct {
	Adapter     string          `json:"adapter"`
	EntryPoints []string        `json:"entry_points"`
	Cases       int             `json:"cases"`
	Requests    int             `json:"requests"`
	Faults      map[string]int  `json:"faults"`
	Distinct    int             `json:"distinct"`
	Sample      json.RawMessage `json:"sample"`
}

func c19Prepare(scratch, adapter string) (dir string, args []string, err error) {
	repo := repoDir()
	dir = filepath.Join(repo, "pkg", "adapters", adapter)
	drv := filepath.Join(verifDir, "props", "c19", "drivers")
	common, err := os.ReadFile(filepath.Join(drv, "common.go.txt"))
	if err != nil {
		return
	}
	glue, err := os.ReadFile(filepath.Join(drv, adapter+".go.txt"))
	if err != nil {
		return
	}
	pkg := c19Adapters[adapter]
	sd := filepath.Join(scratch, "c19-"+adapter)
	_ = os.MkdirAll(sd, 0o755)
	f1 := filepath.Join(sd, "zz_verif_c19_common_test.go")
	f2 := filepath.Join(sd, "zz_verif_c19_glue_test.go")
	_ = os.WriteFile(f1, []byte(strings.Replace(string(common), "package PKG", "package "+pkg, 1)), 0o644)
	_ = os.WriteFile(f2, []byte(strings.Replace(string(glue), "package PKG", "package "+pkg, 1)), 0o644)
	ov := map[string]any{"Replace": map[string]string{
		filepath.Join(dir, "zz_verif_c19_common_test.go"): f1,
		filepath.Join(dir, "zz_verif_c19_glue_test.go"):   f2,
	}}
	js, _ := json.Marshal(ov)
	ovp := filepath.Join(sd, "overlay.json")
	_ = os.WriteFile(ovp, js, 0o644)
	for _, n := range []string{"go.mod", "go.sum"} {
		b, e := os.ReadFile(filepath.Join(dir, n))
		if e != nil {
			err = e
			return
		}
		_ = os.WriteFile(filepath.Join(sd, n), b, 0o644)
	}
	args = []string{"test", "-v", "-count=1", "-vet=off", "-run", "^TestVerifC19$", "-overlay", ovp, "-modfile", filepath.Join(sd, "go.mod"), "."}
	return
}

// c19Scan lists the exported functions of every adapter package that return a middleware /
// interceptor / wrapper, so that the evidence can say which entry points exist and which are driven.
func c19Scan() (all []string) {
	root := filepath.Join(repoDir(), "pkg", "adapters")
	ents, _ := os.ReadDir(root)
	for _, e := range ents {
		if !e.IsDir() {
			continue
		}
		fset := token.NewFileSet()
		pkgs, err := parser.ParseDir(fset, filepath.Join(root, e.Name()), func(fi os.FileInfo) bool { return !strings.HasSuffix(fi.Name(), "_test.go") }, 0)
		if err != nil {
			continue
		}
		for _, p := range pkgs {
			for _, f := range p.Files {
				for _, d := range f.Decls {
					fd, ok := d.(*ast.FuncDecl)
					if !ok || fd.Recv != nil || !fd.Name.IsExported() {
						continue
					}
					n := fd.Name.Name
					if strings.Contains(n, "Middleware") || strings.Contains(n, "Interceptor") || strings.Contains(n, "Wrapper") || strings.HasPrefix(n, "Sentinel") {
						all = append(all, e.Name()+"."+n)
					}
				}
			}
		}
	}
	sort.Strings(all)
	return
}

func cmdCheckC19(tier string, seed uint64, runs int) int {
	start := time.Now()
	scratch, err := os.MkdirTemp("", "vsim-c19-")
	if err != nil {
		die2("%v", err)
	}
	defer os.RemoveAll(scratch)
	if runs == 0 {
		runs = 150
		if tier == "thorough" {
			runs = 5000
		}
	}
	var adapters []string
	for a := range c19Adapters {
		adapters = append(adapters, a)
	}
	sort.Strings(adapters)
	fmt.Printf("vsim: property=C19 tier=%s seed=%d adapters=%v cases/entry point=%d repo=%s\n", tier, seed, adapters, runs, repoDir())
	type res struct {
		sum   *c19Summary
		viols []map[string]any
		err   string
	}
	results := make([]res, len(adapters))
	var wg sync.WaitGroup
	for i, a := range adapters {
		wg.Add(1)
		go func(i int, a string) {
			defer wg.Done()
			dir, args, err := c19Prepare(scratch, a)
			if err != nil {
				results[i].err = err.Error()
				return
			}
			cmd := exec.Command("go", args...)
			cmd.Dir = dir
			cmd.Env = append(goEnv(), fmt.Sprintf("VERIF_SEED=%d", seed), fmt.Sprintf("VERIF_C19_RUNS=%d", runs))
			out, err := cmd.CombinedOutput()
			for _, line := range strings.Split(string(out), "\n") {
				if strings.HasPrefix(line, "C19SUMMARY ") {
					var s c19Summary
					if json.Unmarshal([]byte(line[len("C19SUMMARY "):]), &s) == nil {
						results[i].sum = &s
					}
				}
				if strings.HasPrefix(line, "C19VIOLATION ") {
					var v map[string]any
					if json.Unmarshal([]byte(line[len("C19VIOLATION "):]), &v) == nil {
						results[i].viols = append(results[i].viols, v)
					}
				}
			}
			if results[i].sum == nil {
				results[i].err = fmt.Sprintf("driver for %s produced no summary (%v): %s", a, err, tail(string(out), 1500))
			}
		}(i, a)
	}
	wg.Wait()
	for _, r := range results {
		if r.err != "" {
			fmt.Fprintln(os.Stderr, "vsim: infrastructure problem (not a verdict):", r.err)
			return 2
		}
	}
	known := loadKnown()
	open := map[string]knownFinding{}
	for _, k := range known {
		if k.Property == "C19" && k.Status == "open" {
			open[k.Key] = k
		}
	}
	evals, distinct, requests := 0, 0, 0
	faults := map[string]int{}
	var driven []string
	var samples []any
	nviol := 0
	knownSeen := map[string]int{}
	_ = os.MkdirAll(replaysDir(), 0o755)
	usedPaths := map[string]bool{}
	for _, r := range results {
		evals += r.sum.Cases
		distinct += r.sum.Distinct
		requests += r.sum.Requests
		for k, v := range r.sum.Faults {
			faults[k] += v
		}
		driven = append(driven, r.sum.EntryPoints...)
		if len(samples) < 3 && len(r.sum.Sample) > 0 {
			var s any
			_ = json.Unmarshal(r.sum.Sample, &s)
			samples = append(samples, s)
		}
		for _, v := range r.viols {
			key := fmt.Sprintf("%v:%v", v["invariant"], v["entry_point"])
			if k, ok := open[key]; ok {
				knownSeen[key]++
				_ = k
				continue
			}
			nviol++
			v["property"] = "C19"
			path := filepath.Join(replaysDir(), fmt.Sprintf("C19-%v-%d-%v.json", v["adapter"], seed, v["case"]))
			for n := 2; usedPaths[path]; n++ { // several entry points of one adapter may fail at the same case number
				path = filepath.Join(replaysDir(), fmt.Sprintf("C19-%v-%d-%v-%d.json", v["adapter"], seed, v["case"], n))
			}
			usedPaths[path] = true
			js, _ := json.MarshalIndent(v, "", " ")
			_ = os.WriteFile(path, js, 0o644)
			fmt.Printf("violation: %v %v: %v\n", v["invariant"], v["entry_point"], v["message"])
			fmt.Printf("VIOLATION property=C19 replay=%s\n", path)
		}
	}
	keys := make([]string, 0, len(knownSeen))
	for k := range knownSeen {
		keys = append(keys, k)
	}
	sort.Strings(keys)
	for _, k := range keys {
		fmt.Printf("KNOWN-FINDING: property=C19 %s [%s]\n", open[k].What, k)
	}
	all := c19Scan()
	var notDriven []string
	for _, e := range all {
		hit := false
		for _, d := range driven {
			if strings.HasPrefix(d, e) {
				hit = true
			}
		}
		if !hit {
			notDriven = append(notDriven, e)
		}
	}
	wall := time.Since(start).Seconds()
	ev := map[string]any{
		"property_id": "C19", "tier": tier, "seed": seed, "level": "exploration",
		"coverage": map[string]any{
			"evaluations":         evals,
			"distinct_nontrivial": distinct,
			"rule":                "case = one adapter entry point, fallback configured or not, 6-40 requests each (resource admitted / blocked by a threshold-0 flow rule) x (handler ok / returns error / panics); after every request: handler calls, fallback / default rejection, exactly one pass-or-block and exactly one completion seen by a recording statistic slot on the global chain, error traced when the wrapper receives it, panic propagates after the entry was exited, resource concurrency back to 0; non-trivial = every case (each mixes admission and handler faults); distinct = (entry point, fallback, request list)",
			"samples":             samples,
			"requests":            requests,
			"faults_fired":        faults,
			"entry_points_driven": driven,
			"entry_points_found_by_source_scan_not_driven": notDriven,
			"known_findings_seen":                          knownSeen,
			"components":                                   map[string]any{"real": []string{"adapter middleware / interceptor code", "the web / RPC framework's in-process dispatch (gin, echo), gRPC and kitex call signatures", "sentinel core of the version the adapter's go.mod selects (kitex: the working tree; gin, echo, grpc: the released version in the module cache)"}, "stub": []string{"network (requests are dispatched in-process)", "wrapped handlers (scripted ok / error / panic)"}},
			"runs_per_hour":                                int(float64(evals) / wall * 3600),
		},
		"assumptions": []string{"only the entry points listed under entry_points_driven are decided; the others are listed, not claimed", "the clause about all future entry points is not decidable by execution"},
		"wall_s":      wall,
		"violations":  nviol,
	}
	js, _ := json.MarshalIndent(ev, "", " ")
	_ = os.MkdirAll(evidenceDir(), 0o755)
	_ = os.WriteFile(filepath.Join(evidenceDir(), "C19.json"), js, 0o644)
	fmt.Printf("vsim: C19 %s: %d cases (%d distinct), %d requests over %d entry points, %d violation(s), %d known, %.1fs\n", tier, evals, distinct, requests, len(driven), nviol, len(knownSeen), wall)
	if nviol > 0 {
		return 1
	}
	return 0
}

func cmdReplayC19(path string, c map[string]any) int {
	scratch, err := os.MkdirTemp("", "vsim-c19-")
	if err != nil {
		die2("%v", err)
	}
	defer os.RemoveAll(scratch)
	a, _ := c["adapter"].(string)
	if _, ok := c19Adapters[a]; !ok {
		die2("unknown adapter %q in replay file", a)
	}
	dir, args, err := c19Prepare(scratch, a)
	if err != nil {
		die2("%v", err)
	}
	cmd := exec.Command("go", args...)
	cmd.Dir = dir
	cmd.Env = append(goEnv(), "VERIF_C19_REPLAY="+path)
	out, _ := cmd.CombinedOutput()
	for _, line := range strings.Split(string(out), "\n") {
		if strings.HasPrefix(line, "C19REPLAY ") {
			var r map[string]any
			_ = json.Unmarshal([]byte(line[len("C19REPLAY "):]), &r)
			fmt.Println("replay:", line[len("C19REPLAY "):])
			if r["invariant"] != "" && r["invariant"] != nil {
				if r["invariant"] != c["invariant"] {
					fmt.Println("replay diverged: recorded", c["invariant"])
					return 2
				}
				fmt.Printf("VIOLATION property=C19 replay=%s\n", path)
				return 1
			}
			fmt.Println("no violation (property holds on this trace)")
			return 3
		}
	}
	die2("driver produced no replay line: %s", tail(string(out), 1500))
	return 2
}
