//go:build go1.25

package simbubble

import (
	"flag"
	"fmt"
	"os"
	"strings"
	"testing"
	"testing/synctest"
	"time"

	"verif/harness"
	_ "verif/props/all"
	"verif/props/c18"
)

var (
	fProp      = flag.String("prop", "", "property id")
	fTier      = flag.String("tier", "quick", "quick|thorough")
	fSeed      = flag.Uint64("seed", 1, "VERIF_SEED")
	fWorker    = flag.Int("worker", 0, "worker index")
	fWorkers   = flag.Int("workers", 1, "number of workers")
	fRuns      = flag.Int("runs", 0, "total runs (0 = until budget)")
	fBudget    = flag.Float64("budget", 20, "wall budget in seconds")
	fOut       = flag.String("out", "", "summary file")
	fReplayDir = flag.String("replaydir", "/verif/replays", "where replay files go")
	fTree      = flag.String("tree", "", "tree hash")
	fReplay    = flag.String("replay", "", "replay a file literally")
	fKnown     = flag.String("known", "", "comma separated open known-finding keys")
	fProgress  = flag.String("progress", "", "file holding the index of the run in flight")
	fGen       = flag.Int("gen", -1, "only generate this run's case into -out")
)

// bubble runs one simulated run inside a synctest bubble. The bubble ends when the
// run function returns; goroutines of the system under test that are still parked
// (workers ranging over channels, watcher loops) make synctest report a deadlock at
// the end of the bubble, which is expected and recovered.
func bubble(t *testing.T) func(p harness.Prop, c *harness.Case) *harness.Outcome {
	return func(p harness.Prop, c *harness.Case) (out *harness.Outcome) {
		defer func() {
			if r := recover(); r != nil {
				msg := fmt.Sprint(r)
				if out != nil && strings.Contains(msg, "deadlock") {
					return // leftover parked goroutines of the system under test
				}
				if out == nil {
					out = harness.NewOutcome()
				}
				if strings.Contains(msg, "deadlock") {
					return
				}
				out.Infra = "panic in bubble: " + msg
			}
		}()
		synctest.Test(t, func(t *testing.T) {
			out = p.Exec(c)
		})
		return out
	}
}

func TestSim(t *testing.T) {
	c18.Quiesce = synctest.Wait
	if *fReplay != "" {
		rc := harness.Replay(*fReplay, bubble(t))
		os.Exit(rc)
	}
	if *fProp == "" {
		t.Skip("no property given")
	}
	a := harness.WorkerArgs{Prop: *fProp, Tier: *fTier, Seed: *fSeed, Worker: *fWorker, Workers: *fWorkers, Runs: *fRuns,
		Budget: time.Duration(*fBudget * float64(time.Second)), Out: *fOut, ReplayDir: *fReplayDir, Tree: *fTree, ExecWrap: bubble(t), Progress: *fProgress, GenOnly: *fGen}
	a.KnownKeys = map[string]bool{}
	for _, k := range strings.Split(*fKnown, ",") {
		if k != "" {
			a.KnownKeys[k] = true
		}
	}
	os.Exit(harness.RunWorker(a))
}
