// Package simbubble is the worker for engine E3: the same worker loop as
// cmd/simrun, built as a test binary with the newer toolchain so that every
// simulated run executes inside a testing/synctest bubble (fake time for real
// timers, quiescence detection for real background goroutines).
package simbubble
